"""C04 — exceptions keep their class; glom failures are GlomErrors; default is selective."""
import copy

import exccat
import pyspec
import pyval
from lib import cstr, cbool, clist
from pyval import val_coq, res_coq, Unrepresentable
from specgen import SpecGen

ID = 'C04'
PROPERTY_FILE = 'Properties/C04'
MODEL_FILES = ['Model/Interp', 'Model/Exit', 'Corr/Exit']
GENERATED_DEPS = ['ExcTable.v']
COQ_HEADER = ('From Coq Require Import String ZArith List.\nImport ListNotations.\n'
              'From Glom Require Import Base.PyVal Model.TEval Model.Interp Model.Exit Corr.Exit.\nLocal Open Scope string_scope.\n')
CHECK_FN = 'x_check'
UNMODELLED_FN = 'x_unmodelled'
RULE = ('type-directed spec trees (as for C03) with one planted fault: a callable raising an instance of a catalogue class, placed at '
        'a random evaluation position (dict value, list / tuple / Pipe element, Coalesce alternative, Call / Invoke argument, Spec / '
        'Fill / Auto body, scope binding, T call argument), directly or after the original sub-spec; the catalogue: 12 builtin classes '
        '(incl. KeyboardInterrupt, SystemExit, GeneratorExit), user classes with attributes, keyword-only / arity-changing / '
        'argument-transforming constructors, multiple inheritance, a BaseException subclass, GlomError / PathAccessError / MatchError '
        'subclasses with and without their own __init__; options: none, default, skip_exc (the class, a base, GlomError, an unrelated '
        'class, a pair, Exception, BaseException), both, each with and without glom_debug; also unplanted specs whose own failures are '
        'glom-detected. Observed: value / the default object by identity / the original exception object by identity / a new object: '
        'its class, whether it is a GlomError.wrap subclass, args equal to the original\'s, every attribute of the original present, '
        'isinstance against all 44 catalogue classes. Non-trivial: fault depth >= 2, or a non-trivial constructor, or any option set.')
ASSUMPTIONS = ['what type(e)(*e.args) does for a catalogue class is measured on the real class and passed to the model as part of the case',
               '__cause__ / __context__ / traceback are not observed; nested (re-entrant) glom calls are C20\'s']
SHARD = 250

NONTRIVIAL_CTOR = {'UAttr', 'UInitAttr', 'UKwOnly', 'UArity', 'UPrefix', 'UMulti', 'GAttr', 'GArity', 'GPrefix', 'GKwOnly', 'GPathSub', 'GMatchSub'}


# ---------- planting ----------
def positions(ir, path, acc, depth):
    """paths to sub-spec positions where a callable is evaluated as a spec"""
    k = ir[0]

    def sub(i, child, d=depth + 1):
        acc.append((path + [i], d))
        positions(child, path + [i], acc, d)
    if k == 'Dict':
        for j, (ks, vs) in enumerate(ir[2]):
            acc.append((path + [2, j, 1], depth + 1))
            positions(vs, path + [2, j, 1], acc, depth + 1)
    elif k in ('List', 'Tuple', 'Pipe'):
        for j, s in enumerate(ir[1]):
            acc.append((path + [1, j], depth + 1))
            positions(s, path + [1, j], acc, depth + 1)
    elif k == 'Coalesce':
        for j, s in enumerate(ir[1]):
            acc.append((path + [1, j], depth + 1))
            positions(s, path + [1, j], acc, depth + 1)
    elif k == 'Call':
        for j, s in enumerate(ir[2]):
            positions(s, path + [2, j], acc, depth + 1)
    elif k == 'Invoke':
        for j, part in enumerate(ir[2]):
            is_spec, ss = part[0], part[1]
            if is_spec is True:
                for m, s in enumerate(ss):
                    acc.append((path + [2, j, 1, m], depth + 1))
                    positions(s, path + [2, j, 1, m], acc, depth + 1)
    elif k in ('Spec', 'Fill', 'Auto'):
        if k != 'Fill':
            sub(1, ir[1])
    elif k == 'Ref' and ir[2] is not None:
        sub(2, ir[2])
    elif k in ('Bind', 'Let'):
        for j, (kk, s) in enumerate(ir[1]):
            acc.append((path + [1, j, 1], depth + 1))
    return acc


def get_at(ir, path):
    for i in path:
        ir = ir[i]
    return ir


def set_at(ir, path, new):
    ir = copy.deepcopy(ir)
    if not path:
        return new
    cur = ir
    for i in path[:-1]:
        cur = cur[i]
    cur[path[-1]] = new
    return ir


def plant(rng, spec, cls):
    fault = ['Fn', ['raise', cls]]
    pos = positions(spec, [], [([], 0)], 0)
    path, depth = rng.choice(pos)
    orig = get_at(spec, path)
    if rng.random() < 0.4 and orig[0] not in ('Bind', 'Let', 'AssignScope'):
        new = ['Tuple', [orig, fault]]
        depth += 1
    else:
        new = fault
    return set_at(spec, path, new), depth


SKIPS = [None, None, 'self', 'base', ['GlomError'], ['ValueError'], ['KeyError', 'UPlain'], ['Exception'], ['BaseException'], ['LookupError'],
         []]      # skip_exc=() given explicitly: nothing is skipped (and the default default is None)


def gen_opts(rng, cls):
    skip = rng.choice(SKIPS)
    if skip == 'self':
        skip = [cls]
    elif skip == 'base':
        bases = [n for n in exccat.CATALOGUE if n != cls and issubclass(exccat.cls(cls), exccat.cls(n)) and n not in ('BaseException',)]
        skip = [rng.choice(bases)] if bases else [cls]
    return {'default': rng.random() < 0.45, 'skip': skip, 'debug': rng.random() < 0.2}


def corpus():
    t = {'k': 'dict', 'od': False, 'id': 1, 'items': [['a', {'k': 'dict', 'od': False, 'id': 2, 'items': [['b', 'c']]}],
                                                      ['l', {'k': 'list', 'id': 3, 'items': [1, 2, 3]}]]}
    F = lambda c: ['Fn', ['raise', c]]  # noqa: E731
    no = {'default': False, 'skip': None, 'debug': False}
    out = []
    for c in ['ValueError', 'UPrefix', 'UAttr', 'UArity', 'UKwOnly', 'GPrefix', 'GArity', 'GAttr', 'KeyboardInterrupt', 'UBase', 'UMulti', 'GPathSub']:
        out.append({'target': t, 'spec': ['Tuple', [['Str', 'a'], F(c)]], 'planted': c, 'depth': 1, 'opts': no})
        out.append({'target': t, 'spec': ['Dict', False, [[['Str', 'x'], ['Tuple', [['Str', 'l'], ['List', [F(c)]]]]]]], 'planted': c, 'depth': 3,
                    'opts': {'default': True, 'skip': None, 'debug': False}})
    out.append({'target': t, 'spec': ['Str', 'a.zz'], 'planted': None, 'depth': 0, 'opts': {'default': True, 'skip': None, 'debug': False}})
    out.append({'target': t, 'spec': ['Str', 'a.zz'], 'planted': None, 'depth': 0, 'opts': {'default': False, 'skip': ['KeyError'], 'debug': False}})
    out.append({'target': t, 'spec': ['Str', 'a.zz'], 'planted': None, 'depth': 0, 'opts': {'default': False, 'skip': None, 'debug': True}})
    return out


def match_dict_case(rng):
    """a failure at the VALUE position of a match-dict entry whose key matched: it must leave with its own class (the planted
    class through Auto(...), TypeMatchError for a type mismatch, PathAccessError for a missing path), not as a generic
    "key didn't match" MatchError"""
    t = {'k': 'dict', 'od': False, 'id': 1, 'items': [['a', rng.choice([1, 'x', None])], ['b', {'k': 'dict', 'od': False, 'id': 2, 'items': [['c', 2]]}]]}
    kind = rng.random()
    key = rng.choice([['Str', 'a'], ['Type', 'str'], ['Required', ['Type', 'str']]])
    rest = [[['Type', 'object'], ['Type', 'object']]]
    if kind < 0.5:
        cls = rng.choice(exccat.PLANTABLE)
        val = ['Auto', ['Tuple', [['T', 'T', []], ['Fn', ['raise', cls]]]]]
        planted = cls
    elif kind < 0.75:
        val, planted = ['Type', rng.choice(['dict', 'list'])], None               # TypeMatchError
    else:
        val, planted = ['Auto', ['Str', 'zz.missing']], None                      # PathAccessError
    spec = ['Match', ['Dict', False, [[key, val]] + rest], None]
    if rng.random() < 0.4:
        spec = ['Tuple', [['T', 'T', []], spec]]
    return {'target': t, 'spec': spec, 'planted': planted, 'depth': 2, 'opts': gen_opts(rng, planted or 'TypeMatchError')}


def generate(rng, tier):
    n = 1800 if tier == 'quick' else 14000
    out = [match_dict_case(rng) for _ in range(n // 12)]
    out += [{'kind': 'lang', 'i': i} for i in range(len(lang_scenarios()))]
    for _ in range(n):
        g = SpecGen(rng)
        t = g.target(rng.choice([2, 3, 3]))
        spec = g.spec(t, rng.choice([1, 2, 3, 3, 4]))
        if rng.random() < 0.85:
            cls = rng.choice(exccat.PLANTABLE)
            spec, depth = plant(rng, spec, cls)
            out.append({'target': t, 'spec': spec, 'planted': cls, 'depth': depth, 'opts': gen_opts(rng, cls)})
        else:
            out.append({'target': t, 'spec': spec, 'planted': None, 'depth': 0, 'opts': gen_opts(rng, 'PathAccessError')})
    return out


# ---------- implementation side ----------
def isa_names(e):
    return [n for n in exccat.CATALOGUE if isinstance(e, exccat.cls(n))]


def base_name(e):
    n = type(e).__name__
    if n.startswith('GlomError.wrap(') and n.endswith(')'):
        # the class the wrapper derives from, by object: two classes may share a __name__
        b = type(e).__bases__[0]
        return (exccat.name_of(b) if b.__name__ == n[len('GlomError.wrap('):-1] else n[len('GlomError.wrap('):-1]), True
    return exccat.name_of(type(e)), False


def public_attrs(e):
    return {k: v for k, v in vars(e).items() if not k.startswith('_')}


def lang_scenarios():
    """exception classes with a meaning to the Python language or to class creation itself — StopIteration (PEP 479 turns it into
    RuntimeError inside a generator frame), a class that refuses to be subclassed — at positions of their own: (name, class, spec)"""
    import glom
    from glom import Spec, Fill, Iter, T

    class Drained(StopIteration):
        pass

    class Final(Exception):
        def __init_subclass__(cls, **kw):
            raise TypeError('Final may not be subclassed')

    def boom(cls):
        def raiser(t):
            raise cls('exhausted', 7)
        raiser.__name__ = 'raise_%s' % cls.__name__
        return raiser
    out = []
    for cls in (StopIteration, Drained):
        b = boom(cls)
        out += [('%s in a callable' % cls.__name__, cls, b),
                ('%s in a chain' % cls.__name__, cls, (T, b)),
                ('%s in a list spec' % cls.__name__, cls, [b]),
                ('%s in a dict spec' % cls.__name__, cls, {'k': b}),
                ('%s in Fill([..])' % cls.__name__, cls, Fill([Spec(b), 1])),
                ('%s in Fill((..))' % cls.__name__, cls, Fill((Spec(b), 1))),
                ('%s in Fill({..})' % cls.__name__, cls, Fill({Spec(b)})),
                ('%s in Fill(frozenset)' % cls.__name__, cls, Fill(frozenset([Spec(b)]))),
                ('%s in Fill([(..)])' % cls.__name__, cls, Fill([(1, Spec(b))])),
                ('%s in Fill({k: ..})' % cls.__name__, cls, Fill({'k': Spec(b)})),
                ('%s in an Iter consumed by a later step' % cls.__name__, cls, (Iter(b), list)),
                # ARGUMENT mode (arg_val): tuple / set / frozenset / list / dict literals holding a spec that raises
                ('%s in a T-call argument' % cls.__name__, cls, T.get(Spec(b)), lambda: {'a': 1}),
                ('%s in a T-call keyword argument' % cls.__name__, cls, T.get('q', default=Spec(b)) if False else T.pop('a', Spec(b)), lambda: {'a': 1}),
                ('%s in Call(args=(..))' % cls.__name__, cls, glom.Call(max, args=(Spec(b), 2)), lambda: {'a': 1}),
                ('%s in a tuple default' % cls.__name__, cls, glom.Coalesce('x', default=(Spec(b), 0)), lambda: {'a': 1}),
                ('%s in a set default' % cls.__name__, cls, glom.Coalesce('x', default={Spec(b)}), lambda: {'a': 1}),
                ('%s in a frozenset default' % cls.__name__, cls, glom.Coalesce('x', default=frozenset([Spec(b)])), lambda: {'a': 1}),
                ('%s in a list default' % cls.__name__, cls, glom.Coalesce('x', default=[Spec(b), 0]), lambda: {'a': 1}),
                ('%s in a dict default' % cls.__name__, cls, glom.Coalesce('x', default={'k': (Spec(b),)}), lambda: {'a': 1}),
                ('%s in S(x=(..))' % cls.__name__, cls, glom.S(x=(Spec(b), 1)), lambda: {'a': 1}),
                ('%s in an index tuple' % cls.__name__, cls, T[(Spec(b), 1)]),
                ('%s in Invoke.specs' % cls.__name__, cls, glom.Invoke(max).specs(b, T), lambda: {'a': 1})]
    class RegistryMiss(LookupError):
        pass

    class Registry:
        def __getitem__(self, key):
            raise RegistryMiss('exhausted', 7)
    # a LookupError that is neither a KeyError nor an IndexError, raised by a target's own __getitem__ under a T[...] step
    out.append(('a LookupError subclass from __getitem__ under T[..]', RegistryMiss, T['reg']['k'], lambda: {'reg': Registry()}))
    out.append(('a LookupError subclass from __getitem__ under Path(T[..])', RegistryMiss, glom.Path(T['reg']['k']), lambda: {'reg': Registry()}))
    out.append(('a class that cannot be subclassed, in a callable', Final, boom(Final)))
    out.append(('a class that cannot be subclassed, in a chain', Final, ('a', boom(Final))))
    return out


def run_lang(case):
    import glom
    name, cls, spec, *own = lang_scenarios()[case['i']]
    target = own[0]() if own else [{'a': 1}] if 'Iter' in name or 'list spec' in name else {'a': 1}
    problems = []
    for entry, call in (('glom', lambda **kw: glom.glom(target, spec, **kw)), ('Glommer', lambda **kw: glom.Glommer().glom(target, spec, **kw))):
        try:
            call()
            problems.append('%s (%s): no exception' % (name, entry))
            continue
        except BaseException as e:  # noqa: B036
            if not isinstance(e, cls):
                problems.append('%s (%s): %s left glom() — not an instance of the %s that was raised' % (name, entry, type(e).__name__, cls.__name__))
                continue
            if e.args != ('exhausted', 7):
                problems.append('%s (%s): args %r' % (name, entry, e.args))
        d = object()
        try:
            if call(default=d, skip_exc=cls) is not d:
                problems.append('%s (%s): default=, skip_exc=%s did not return the default object' % (name, entry, cls.__name__))
        except BaseException as e:  # noqa: B036
            problems.append('%s (%s): default=, skip_exc=%s raised %s' % (name, entry, cls.__name__, type(e).__name__))
        try:
            call(default=d, skip_exc=ZeroDivisionError)
            problems.append('%s (%s): skip_exc=ZeroDivisionError swallowed the error' % (name, entry))
        except BaseException as e:  # noqa: B036
            if not isinstance(e, cls):
                problems.append('%s (%s): with an unrelated skip_exc, %s left glom()' % (name, entry, type(e).__name__))
    return {'problems': problems[:3], 'name': name}


def run_impl(case):
    import glom
    if case.get('kind') == 'lang':
        return run_lang(case)
    del exccat.RAISED[:]
    r = pyval.Realiser()
    target = r.build(case['target'])
    spec = pyspec.build(case['spec'], r)
    o = case['opts']
    kw = {}
    dflt = object()
    if o['default']:
        kw['default'] = dflt
    if o['skip'] is not None:
        kw['skip_exc'] = tuple(exccat.cls(n) for n in o['skip'])
    if o['debug']:
        kw['glom_debug'] = True
    eff_default = dflt if o['default'] else None
    del pyval.CALL_LOG[:]
    try:
        res = glom.glom(target, spec, **kw)
    except BaseException as ex:
        if type(ex).__name__ == 'CaseTimeout' and not exccat.RAISED:
            raise
        name, wrapped = base_name(ex)
        if name == 'UFlaky' and case['planted'] == 'UFlakyBad':
            name = 'UFlakyBad'           # the model names the un-rebuildable instances apart
        origin = getattr(ex, '_GlomError__wrapped', None)
        if any(ex is p for p in exccat.RAISED):
            return {'seen': 'same', 'cls': ('UFlakyBad' if case['planted'] == 'UFlakyBad' and type(ex) is exccat.cls('UFlaky') else exccat.name_of(type(ex)))}
        if origin is not None and any(origin is p for p in exccat.RAISED):
            return {'seen': 'new', 'wrapped': wrapped, 'cls': name, 'args_same': ex.args == origin.args,
                    'attrs_kept': all(getattr(ex, k, None) == v and hasattr(ex, k) for k, v in public_attrs(origin).items()),
                    'isa': isa_names(ex), 'args': repr(ex.args), 'origin_args': repr(origin.args),
                    'origin_attrs': sorted(public_attrs(origin)), 'attrs': sorted(public_attrs(ex))}
        return {'seen': 'other', 'cls': name, 'isa': isa_names(ex), 'wrapped': wrapped}
    if (o['default'] or o['skip'] is not None) and res is eff_default and o['default']:
        return {'seen': 'default'}
    try:
        return {'seen': 'value', 'ok': r.encode(res)}
    except Exception:
        return {'seen': 'value', 'opaque': True}


def measure(cls):
    e = exccat.make(cls)
    try:
        import copy
        import glom
        # what glom() itself does to get a fresh exception object: a GlomError is copied (copy.copy, i.e. its class's __copy__ —
        # TypeMatchError's takes the constructor's argument order into account), anything else is re-created from its args
        again = copy.copy(e) if isinstance(e, glom.GlomError) else type(e)(*e.args)
        rebuild = sorted(public_attrs(again).items())
    except Exception:
        rebuild = None
    return e.args, sorted(public_attrs(e).items()), rebuild


def atom_coq(v):
    if isinstance(v, bool) or v is None or isinstance(v, (int, str)):
        return val_coq(v)
    return '(VStr %s)' % cstr(repr(v)[:40])


def planted_coq(cls):
    if cls is None:
        return '(mkX "" [] [] None)'
    args, attrs, rebuild = measure(cls)
    attrs_c = lambda l: clist('(%s, %s)' % (cstr(k), atom_coq(v)) for k, v in l)  # noqa: E731
    return '(mkX %s %s %s %s)' % (cstr(cls), clist(atom_coq(a) for a in args), attrs_c(attrs),
                                  'None' if rebuild is None else '(Some %s)' % attrs_c(rebuild))


def opts_coq(o):
    return '(mkO %s %s %s)' % ('(Some (VStr "<default>"))' if o['default'] else 'None',
                               'None' if o['skip'] is None else '(Some %s)' % clist(cstr(n) for n in o['skip']), cbool(o['debug']))


def seen_coq(out):
    s = out.get('seen')
    if s == 'default':
        return 'ODefault'
    if s == 'same':
        return '(OSame %s)' % cstr(out['cls'])
    if s == 'new':
        return '(ONew %s %s %s %s %s)' % (cbool(out['wrapped']), cstr(out['cls']), cbool(out['args_same']), cbool(out['attrs_kept']),
                                          clist(cstr(n) for n in out['isa']))
    if s == 'other':
        return '(OOther %s %s)' % (cstr(out['cls']), clist(cstr(n) for n in out['isa']))
    if s == 'value':
        if out.get('opaque'):
            return '(OValue (Unmodelled "opaque"))'
        try:
            return '(OValue %s)' % res_coq(out)
        except Unrepresentable:
            return '(OValue (Unmodelled "opaque"))'
    return '(OValue (Unmodelled "harness"))'


def coq_case(case, out):
    if case.get('kind') == 'lang' or 'harness_error' in out or 'harness_timeout' in out:
        return '(mkXC VNone (SRequired SM) [] (mkX "" [] [] None) (mkO None None false) [] (OValue (Unmodelled "harness")))'
    return '(mkXC %s %s [] %s %s %s %s)' % (val_coq(case['target']), pyspec.spec_coq(case['spec']), planted_coq(case['planted']),
                                            opts_coq(case['opts']), clist(cstr(n) for n in exccat.CATALOGUE), seen_coq(out))


def model_dump_term(case):
    if case.get('kind') == 'lang':
        return '0'
    c = coq_case(case, {'seen': 'default'})
    return '(x_model %s, exit (xc_opts %s) (xc_planted %s))' % (c, c, c)


def matches_finding(f, case, out):
    return f['id'] == 'F42' and case.get('kind') == 'lang' and 'in an Iter consumed by a later step' in out.get('name', '')


def direct_oracle(case, out):
    """the property read directly on the observation"""
    if case.get('kind') == 'lang':
        return '; '.join(out['problems']) if out.get('problems') else None
    if out.get('seen') == 'new':
        if not out['args_same']:
            return 'the exception leaving glom() has args %s, the original had %s' % (out['args'], out['origin_args'])
        if not out['attrs_kept']:
            return 'attributes %r of the original exception are missing on the exception leaving glom() (%r)' % (out['origin_attrs'], out['attrs'])
        if out['cls'] not in out['isa']:
            return 'not an instance of the original class'
        if 'GlomError' not in out['isa']:
            return 'a re-created exception that is not a GlomError'
    if out.get('seen') == 'other' and not out.get('wrapped') and 'GlomError' not in out['isa'] and case['planted'] is None \
            and not case['opts']['debug'] and 'Exception' in out['isa']:
        return 'a failure inside glom left as a non-GlomError %s' % out['cls']
    return None


def nontrivial(case, out):
    if case.get('kind') == 'lang':
        return True
    o = case['opts']
    return case['depth'] >= 2 or case['planted'] in NONTRIVIAL_CTOR or o['default'] or o['skip'] is not None or o['debug']


def classify(case, out):
    if case.get('kind') == 'lang':
        return 'lang'
    o = case['opts']
    return '%s|%s|%s%s%s' % (case['planted'] or 'unplanted', out.get('seen', 'harness'),
                             'D' if o['default'] else '-', 'S' if o['skip'] is not None else '-', 'G' if o['debug'] else '-')


def python_snippet(case):
    return ('import sys; sys.path.insert(0, "/verif/harness"); sys.path.insert(0, "/repo")\n'
            'import props.c04 as p; print(p.run_impl(%r))' % (case,))
