"""C05 — error messages carry a faithful target-spec trace down to the failing spec."""
import re
import traceback

from lib import cnat, cbool, clist
import pyval

ID = 'C05'
PROPERTY_FILE = 'Properties/C05'
MODEL_FILES = ['Model/Trace', 'Spec/TraceSpec', 'Corr/Trace']
GENERATED_DEPS = []
COQ_HEADER = ('From Coq Require Import String List.\nImport ListNotations.\n'
              'From Glom Require Import Base.PyVal Model.Trace Corr.Trace.\nLocal Open Scope string_scope.\n')
CHECK_FN = 't_check'
RULE = ('(a) spec shapes of depth <= 4 over leaf (succeeding Val / failing T access) / dict / tuple chain / Coalesce / Or / Switch with 1-3 '
        'children each and failures planted with probability 0.35 per leaf, evaluated on a small dict target; observed: success or '
        'GlomError, _unpack_stack(err._scope) as a tree of (spec occurrence, target, error present, branch sub-stacks), and the lines of '
        'str(err) parsed into (prefix characters, Target / Spec / error, which spec or target the value text names). (b) '
        '_format_trace_value on strings, lists, dicts, ints, objects without len, with widths around the repr length and around the '
        'suffix length. On the implementation side also: str(err) can be produced, its first trace line shows the root target, its last '
        'line is the original error\'s class and message, for 14 kinds of original error (every GlomError subtype raised by glom plus '
        'callables raising) and for short, long, non-ASCII, cyclic and deeply nested targets; TRACE_WIDTH-bounded line lengths. '
        'Non-trivial: depth >= 3 or at least one branching spec, or a truncating width.')
ASSUMPTIONS = ['the text of repr() and of the Python traceback tail are outside the model; the harness names the spec / target a line shows '
               'by matching the printed value text against the reprs of the spec occurrences',
               'TRACE_WIDTH is fixed at import; truncation is exercised by calling _format_trace_value / format_target_spec_trace with widths']
SHARD = 250

ROOT = {'t': 1}
SKIPPED = '<skipped value>'


class Node:
    __slots__ = ('kind', 'sid', 'kids', 'ok', 'vals')


def gen_tree(r, depth, ctr, pfail=0.35):
    n = Node()
    ctr[0] += 1
    n.sid = ctr[0]
    n.kind = 'leaf' if depth == 0 else r.choice(['leaf', 'nest', 'chain', 'alt', 'or', 'switch', 'chain', 'nest', 'guard', 'altd', 'not', 'and'])
    n.kids, n.vals, n.ok = [], [], True
    if n.kind == 'leaf':
        x = r.random()
        n.ok = x > pfail
        if x > 0.93:
            n.kind = 'skip'           # succeeds with the value every Coalesce skips
        return n
    if n.kind == 'guard':
        # Check(sub-spec, ...): refuses by itself (after the sub-spec succeeded) with probability pfail
        n.ok = r.random() > pfail
        n.kids = [gen_tree(r, depth - 1, ctr, pfail * 0.5)]
        return n
    if n.kind == 'not':
        # Not(sub-spec): passes the target on when the sub-spec fails, refuses by itself when it succeeds
        n.kids = [gen_tree(r, depth - 1, ctr, 0.6)]
        return n
    m = r.randint(1, 3)
    n.kids = [gen_tree(r, depth - 1, ctr, pfail) for _ in range(m)]
    if n.kind == 'switch':
        n.vals = [gen_tree(r, depth - 1, ctr, pfail) for _ in range(m)]
    return n


def to_ir(n):
    if n.kind == 'leaf':
        return ['leaf', n.sid, n.ok]
    if n.kind == 'skip':
        return ['skip', n.sid]
    if n.kind == 'switch':
        return ['switch', n.sid, [[to_ir(a), to_ir(b)] for a, b in zip(n.kids, n.vals)]]
    if n.kind == 'guard':
        return ['guard', n.sid, n.ok, to_ir(n.kids[0])]
    if n.kind == 'not':
        return ['not', n.sid, to_ir(n.kids[0])]
    return [n.kind, n.sid, [to_ir(k) for k in n.kids]]


def ir_coq(ir):
    k = ir[0]
    if k == 'leaf':
        return '(Leaf %s %s)' % (cnat(ir[1]), cbool(ir[2]))
    if k == 'skip':
        return '(SkipLeaf %s)' % cnat(ir[1])
    if k == 'switch':
        return '(Switch %s %s)' % (cnat(ir[1]), clist('(%s, %s)' % (ir_coq(a), ir_coq(b)) for a, b in ir[2]))
    if k == 'guard':
        return '(Guard %s %s %s)' % (cnat(ir[1]), cbool(ir[2]), ir_coq(ir[3]))
    if k == 'not':
        return '(NotS %s %s)' % (cnat(ir[1]), ir_coq(ir[2]))
    name = {'nest': 'Nest', 'chain': 'Chain', 'alt': 'Alt', 'or': 'OrS', 'altd': 'AltD', 'and': 'AndS'}[k]
    return '(%s %s %s)' % (name, cnat(ir[1]), clist(ir_coq(x) for x in ir[2]))


def realise(ir, reg):
    """abstract shape -> real glom spec; reg: id(spec object) -> sid, and sid -> object"""
    import glom
    from glom.matching import Switch
    k = ir[0]
    if k == 'skip':
        sp = glom.Val(SKIPPED)
    elif k == 'leaf':
        if ir[2] and ir[1] % 3 == 0:
            sp = mk_copy(ir[1], reg)          # succeeds with a NEW object that is equal to the one it received
        else:
            sp = glom.Val(ir[1]) if ir[2] else glom.T['FAIL_%d' % ir[1]]
    elif k == 'switch':
        sp = Switch([(realise(a, reg), realise(b, reg)) for a, b in ir[2]])
    elif k == 'guard':
        sp = glom.Check(realise(ir[3], reg), validate=(_accept if ir[2] else _refuse))
    elif k == 'not':
        sp = glom.Not(realise(ir[2], reg))
    else:
        subs = [realise(x, reg) for x in ir[2]]
        if k == 'nest':
            sp = {('n%d_%d' % (ir[1], i)): s for i, s in enumerate(subs)}
        elif k == 'chain':
            sp = tuple(subs)
        elif k == 'alt':
            sp = glom.Coalesce(*subs, skip=SKIPPED)
        elif k == 'and':
            sp = glom.And(*subs)               # every child on the same target, the first failure propagates, the last child's value
        elif k == 'altd':
            # recovers: when every alternative failed or was skipped, the factory's value is the result
            sp = glom.Coalesce(*subs, skip=SKIPPED, default_factory=mk_default(ir[1], reg))
        else:
            sp = glom.Or(*subs)
    reg['by_id'][id(sp)] = ir[1]
    reg['by_sid'][ir[1]] = sp
    reg['keep'].append(sp)
    return sp


def _accept(x):
    return True


def _refuse(x):
    return False


def mk_default(sid, reg):
    def factory():
        o = {'dflt': sid}
        reg['made'][id(o)] = 3000 + sid
        reg['keep'].append(o)
        return o
    return factory


def mk_copy(sid, reg):
    def copy_leaf(t):
        if isinstance(t, dict):
            o = dict(t)
            reg['made'][id(o)] = 2000 + sid
            reg['keep'].append(o)
            return o
        return sid
    copy_leaf.__name__ = 'copy%d' % sid
    return copy_leaf


def depth_of(ir):
    if ir[0] in ('leaf', 'skip'):
        return 0
    if ir[0] == 'guard':
        return 1 + depth_of(ir[3])
    if ir[0] == 'not':
        return 1 + depth_of(ir[2])
    if ir[0] == 'switch':
        return 1 + max(max(depth_of(a), depth_of(b)) for a, b in ir[2])
    return 1 + max([depth_of(x) for x in ir[2]] or [0])


def has_branch(ir):
    if ir[0] in ('leaf', 'skip'):
        return False
    if ir[0] in ('alt', 'or', 'switch', 'altd'):
        return True
    if ir[0] == 'guard':
        return has_branch(ir[3])
    if ir[0] == 'not':
        return has_branch(ir[2])
    return any(has_branch(x) for x in ir[2])


def target_id(t, reg):
    if id(t) in reg['made']:
        return reg['made'][id(t)]
    if t is reg.get('root'):
        return 7
    if isinstance(t, int) and not isinstance(t, bool):
        return 2000 + t
    return 0


def unpack(scope, reg):
    from glom.core import _unpack_stack
    out = []
    for sc, spec, target, error, branches in _unpack_stack(scope):
        out.append([reg['by_id'].get(id(spec), 0), target_id(target, reg), error is not None, [unpack(b, reg) for b in branches]])
    return out


LINE = re.compile(r'^( [|\\X+-]*[|\\X+-] )(Target: |Spec: )?(.*)$')


def parse_lines(text, reg):
    """the target-spec trace part of str(e) -> [[prefix, kind, id-or-None]]"""
    from glom.core import bbrepr
    lines = text.split('\n')
    assert lines[1] == ' Target-spec trace (most recent last):', lines[:2]
    out = []
    reprs = {sid: bbrepr(sp).replace("\\'", "'") for sid, sp in reg['by_sid'].items()}
    for ln in lines[2:]:
        m = LINE.match(ln)
        if not m:
            break                                        # the traceback tail
        prefix, label, value = m.groups()
        if label is None:
            out.append([prefix, 'err', None])
            continue
        core = re.sub(r'\.\.\.( \(len=\d+\))?$', '', value)
        if label == 'Target: ':
            if value == repr(ROOT):
                out.append([prefix, 'target', None])     # the root or an equal copy of it: named by the tree comparison
            elif re.fullmatch(r'-?\d+', value):
                out.append([prefix, 'target', 2000 + int(value)])
            else:
                out.append([prefix, 'target', None])
        else:
            hits = [sid for sid, rp in reprs.items() if rp == value or (core != value and rp.startswith(core))]
            out.append([prefix, 'spec', hits[0] if len(hits) == 1 else None])   # None: the text does not name one occurrence; the tree does
    return out


def run_trace(case):
    import glom
    reg = {'by_id': {}, 'by_sid': {}, 'keep': [], 'made': {}}
    spec = realise(case['tree'], reg)
    reg['root'] = dict(ROOT)
    try:
        glom.glom(reg['root'], spec)
        return {'ok': True}
    except glom.GlomError as e:
        out = {'ok': False, 'tree': unpack(e._scope, reg)}
        text = str(e)
        out['lines'] = parse_lines(text, reg)
        tl = text.split('\n')
        out['first'] = tl[2] if len(tl) > 2 else ''
        out['last'] = tl[-1]
        orig = getattr(e, '_GlomError__wrapped', e)
        out['orig_line'] = ''.join(traceback.format_exception_only(type(orig), orig)).strip().split('\n')[-1]
        out['maxlen'] = max(len(x) for x in tl[2:2 + len(out['lines'])]) if out['lines'] else 0
        return out


def run_value(case):
    from glom.core import _format_trace_value, bbrepr
    v = build_value(case['value'])
    s = bbrepr(v).replace("\\'", "'")
    try:
        vlen = len(v)
    except Exception:
        vlen = None
    return {'s': s, 'vlen': vlen, 'result': _format_trace_value(v, case['maxlen'])}


class NoLen:
    def __repr__(self):
        return '<NoLen object with a rather long repr for truncation>'


def build_value(d):
    k = d[0]
    if k == 'str':
        return d[1]
    if k == 'list':
        return list(range(d[1]))
    if k == 'dict':
        return {('k%d' % i): i for i in range(d[1])}
    if k == 'int':
        return d[1]
    if k == 'nolen':
        return NoLen()
    if k == 'tuple':
        return tuple('ab' for _ in range(d[1]))
    raise ValueError(d)


# every kind of original error: the message must render and end the text
N_MESSAGE = 26 + 5 * 4 * 3 + 1 + 5 + 5 + 5 + 5 + 4 + 3


def message_cases():
    import glom
    from glom import T, S, Coalesce, Check, Match, M, Switch, Fold, Assign, Delete, Path
    cyc = {'a': 1}
    cyc['self'] = cyc
    cl = [1]
    cl.append(cl)
    deep = []
    cur = deep
    for _ in range(60):
        nxt = []
        cur.append(nxt)
        cur = nxt
    return [
        ('path-key', {'a': {}}, 'a.b'),
        ('path-index', {'a': [1]}, 'a.5'),
        ('path-attr', object(), 'zz'),
        ('t-expr', {'a': 1}, T['a']['b']),
        ('s-rooted', 1, S.y),
        ('coalesce', {'a': 1}, Coalesce('x', 'y')),
        ('check', {'a': 1}, ('a', Check(type=str))),
        ('match', {'a': 1}, Match({'a': str})),
        ('match-m', 3, Match(M > 5)),
        ('switch', 3, Switch({1: 'a'})),
        ('unregistered', 5, ['a']),
        ('fold', 5, Fold(T, int)),
        ('assign', (1, 2), Assign(T[0], 5)),
        ('delete', {'a': 1}, Delete('b')),
        ('callable', {'a': 1}, lambda t: 1 // 0),
        ('badspec', {'a': 1}, {'k': 5}),
        ('long-target', {'key%03d' % i: 'value %d' % i for i in range(60)}, 'zz'),
        ('non-ascii', {'café': '你好', 'k': '\U0001f600'}, 'zz'),
        ('cyclic-dict', cyc, 'zz'),
        ('cyclic-list', cl, 'zz'),
        ('deep-list', deep, 'zz'),
        ('cyclic-in-chain', {'c': cyc}, ('c', 'self', 'self', 'zz')),
        # a callable that runs a nested glom, logs (stringifies) its error and lets it propagate
        ('nested-logged', {'a': {'x': {}}}, ('a', _logging_nested)),
        ('nested-plain', {'a': {'x': {}}}, ('a', _plain_nested)),
        # F40: original errors whose class brings a __str__ of its own (KeyError, the OSError family)
        ('callable-keyerror', {'a': 1}, ('a', lambda t: {}['k'])),
        ('callable-oserror', {'a': 1}, ('a', lambda t: open('/nonexistent/zz/file'))),
    ] + guard_cases() + note_cases() + depth_cases() + recovered_cases() + falsy_cases() + lazy_trace_cases() + list_pattern_cases()


def _refuse_all(x):
    return False


def recovered_cases():
    """F33: a sub-spec recovers from a failure without evaluating anything afterwards (default_factory, Not) and its parent then
    fails by itself: the recovered failure is not on the path of the error"""
    from glom import Coalesce, Check, Not, T, Or, Call
    leak = ["Spec: 'zz'", "could not access 'zz'"]

    def boom(*a):
        raise ValueError('boom')
    return [
        ('recovered:default-factory', {'a': 1}, Check(Coalesce('zz', default_factory=int), validate=_refuse_all), ['CheckError'], leak),
        ('recovered:not', {'a': 1}, Check(Not('zz'), validate=_refuse_all), ['CheckError'], leak),
        ('recovered:factory-in-chain', {'a': 1}, ('a', Check(Coalesce('zz', 'yy', default_factory=list), validate=_refuse_all)), ['CheckError'],
         leak + ["Spec: 'yy'"]),
        ('recovered:nested', {'a': 1}, Check(Check(Coalesce('zz', default_factory=int), validate=_accept), validate=_refuse_all), ['CheckError'], leak),
        ('recovered:control', {'a': 1}, Check(Coalesce('zz', default=0), validate=_refuse_all), ['CheckError'], leak),
    ]


def list_pattern_cases():
    """F47: in a list pattern every item tries the alternatives in turn; the alternatives an EARLIER item did not match before it matched
    another are not failures of the list and do not show when a later item fails"""
    from glom import Match
    return [
        ('listpat:earlier-item', ['a', 2.0], Match([int, str]), ['Target: 2.0', 'Spec: int', 'Spec: str'], ["Target: 'a'"]),
        ('listpat:three-items', [1, 'a', None, 'b'], Match([str, int]), ['Target: None'], ["Target: 1", "Target: 'a'"]),
        ('listpat:set', {'a', 2.0} - {'a'} | {2.0}, Match({int, str}), ['Target: 2.0'], []),
    ]


def lazy_trace_cases():
    """children that are evaluated AFTER the scope they hang under has finished: the items of a lazy Iter consumed by a later step
    (F43), and the key of First, run through Spec.glom on a flattened scope (F44).  Required: each spec on the way once — the 6th
    element caps how often a line may occur"""
    from glom import Iter
    from glom.streaming import First
    rows = {'x': [{'a': 1}, {'b': 1}]}
    once = {"Spec: 'a'": 1, "Spec: Iter('a')": 1, 'Spec: list': 1}
    return [
        ('lazy:iter-then-list', rows, ('x', Iter('a'), list), ["Spec: Iter('a')", "Spec: 'a'", "Target: {'b': 1}"], [], once),
        ('lazy:iter-all', rows, ('x', Iter('a').all()), ["Spec: 'a'", "Target: {'b': 1}"], [], {"Spec: 'a'": 1, "Spec: Iter('a')": 1}),
        ('lazy:first-key', {'x': [{'b': 0}]}, ('x', First('b.q')), ["Spec: First('b.q')", "Spec: 'b.q'", "Target: {'b': 0}"]),
        ('lazy:eager-control', rows, ('x', ['a']), ["Spec: ['a']", "Spec: 'a'", "Target: {'b': 1}"], [], {"Spec: 'a'": 1}),
    ]


def matches_finding(f, case, out):
    if case.get('kind') != 'message':
        return False
    name = out.get('name', '')
    return (f['id'] == 'F43' and name in ('lazy:iter-then-list', 'lazy:iter-all')) or (f['id'] == 'F44' and name == 'lazy:first-key')


def _falsy_raiser(cls_name, text):
    def fail(t):
        import exccat
        raise exccat.cls(cls_name)(text)
    fail.__name__ = 'fails_falsy'
    return fail


def falsy_cases():
    """the error that ended an abandoned branch is a FALSY object (an aggregate error with __len__ 0 / __bool__ False): it is still
    the error that ended the branch, and is shown"""
    from glom import Coalesce, Or, Switch, T, Val
    t = {'a': 1}
    return [
        ('falsy:coalesce', t, Coalesce(_falsy_raiser('GFalsy', 'first: nothing usable'), 'zz'), ['GFalsy: first: nothing usable']),
        ('falsy:coalesce-skip-exc', t, Coalesce(_falsy_raiser('UFalsy', 'first: empty batch'), 'zz', skip_exc=(Exception,)),
         ['UFalsy: first: empty batch']),
        ('falsy:or', t, Or(_falsy_raiser('GFalsy', 'first: schema mismatch'), 'zz'), ['GFalsy: first: schema mismatch']),
        ('falsy:switch', t, Switch([(_falsy_raiser('GFalsy', 'case 1: mismatch'), Val(1)), (T['zz'], Val(2))]), ['GFalsy: case 1: mismatch']),
        ('falsy:nested', t, ('a', Coalesce((T, _falsy_raiser('GFalsy', 'inner one')), (T, _falsy_raiser('GFalsy', 'inner two')))),
         ['GFalsy: inner one', 'GFalsy: inner two']),
    ]


def depth_cases():
    """values nested deeper than reprlib's default depth limit (6): the lines show the real object"""
    n7 = [[[[[[[1]]]]]]]
    d7 = {'a': {'b': {'c': {'d': {'e': {'f': {'g': 1}}}}}}}
    t7 = (((((((1, 2),),),),),),)
    return [
        ('depth:list', n7, 'zz', [' - Target: [[[[[[[1]]]]]]]']),
        ('depth:dict', d7, 'zz', [" - Target: {'a': {'b': {'c': {'d': {'e': {'f': {'g': 1}}}}}}}"]),
        ('depth:tuple', t7, 'zz', [' - Target: (((((((1, 2),),),),),),)']),
        ('depth:chain', {'a': n7}, ('a', 'zz'), [" - Target: {'a': [[[[[[[1]]]]]]]}", ' - Target: [[[[[[[1]]]]]]]']),
        ('depth:spec', {'x': 1}, [[[[[[['x']]]]]]], [" - Spec: [[[[[[['x']]]]]]]"]),
    ]


def _noted(n, cls_name='GlomError'):
    def fail(t):
        import glom
        e = getattr(glom, cls_name)('first failure %d' % n) if cls_name == 'GlomError' else ValueError('first failure %d' % n)
        e.add_note('while reading field %d' % n)
        raise e
    fail.__name__ = 'noted%d' % n
    return fail


def note_cases():
    """the error that ended an abandoned branch carries a PEP 678 note: its class and message are shown (and the note)"""
    from glom import Coalesce, Or, Switch, T, Val
    t = {'a': 1}
    return [
        ('note:coalesce', t, Coalesce(_noted(1), 'zz'), ['GlomError: first failure 1', 'while reading field 1']),
        ('note:coalesce-skip-exc', t, Coalesce(_noted(2, 'ValueError'), 'zz', skip_exc=(ValueError, LookupError)),
         ['ValueError: first failure 2', 'while reading field 2']),
        ('note:or', t, Or(_noted(3), 'zz'), ['GlomError: first failure 3', 'while reading field 3']),
        ('note:switch', t, Switch([(_noted(4), Val(1)), (T['zz'], Val(2))]), ['GlomError: first failure 4', 'while reading field 4']),
        ('note:nested', t, ('a', Coalesce((T, _noted(5)), (T, _noted(6)))), ['GlomError: first failure 5', 'GlomError: first failure 6']),
    ]


def guard_cases():
    """a branch that fails BY ITSELF after its own sub-specs succeeded (Check / And / Match of a reached value), followed by a sibling
    that has sub-specs too and does not fail, under a parent that then raises: exactly one recorded branch which is not the last
    child (F28: comparing the two scopes with == recursed without end)"""
    from glom import Coalesce, Check, Or, Not, And, Match, M, T
    t = {'n': 1, 'l': {'m': None}, 'b': {'q': 1}, 'c': 1}
    failing = [('check-path', Check('n', type=dict)), ('check-tuple', Check(('n',), type=dict)), ('and', And('n', M == 5)),
               ('check-deep', Check(('b', 'q'), type=str)), ('tuple-check', ('n', Check(type=dict)))]
    last = [('tuple', ('l', 'm')), ('tuple1', ('l',)), ('path', 'l.m'), ('check-pass', Check('l', type=dict))]
    out = []
    for fn, f in failing:
        for ln, l in last:
            out.append(('guard:coalesce-skip:%s:%s' % (fn, ln), t, Coalesce(f, (l, lambda x: None), skip=None)))
            out.append(('guard:not-or:%s:%s' % (fn, ln), t, Not(Or(f, l, default=1))))
            out.append(('guard:chain-not-or:%s:%s' % (fn, ln), t, (T, Not(Or(f, l)))))
    out.append(('guard:check-or-coalesce', {'b': {'q': 1}, 'c': 1, 'l': [1]}, Check(Or(('b', 'x'), Coalesce('c', 'l', len)), type=dict)))
    return out


def _logging_nested(t):
    import glom
    try:
        return glom.glom(t, 'x.y')
    except glom.GlomError as e:
        str(e)
        raise


def _plain_nested(t):
    import glom
    return glom.glom(t, 'x.y')



def _plain_acyclic(v, seen=None, depth=0):
    seen = set() if seen is None else seen
    if v is None or type(v) in (bool, int, str):
        return True
    if type(v) not in (list, dict, tuple) or depth > 200 or id(v) in seen:
        return False
    seen.add(id(v))
    items = list(v.items()) if type(v) is dict else list(v)
    ok = all((_plain_acyclic(k, seen, depth + 1) and _plain_acyclic(x, seen, depth + 1)) if type(v) is dict else _plain_acyclic(k, seen, depth + 1)
             for k, *rest in ([(a, b) for a, b in items] if type(v) is dict else [(a,) for a in items]) for x in (rest or [None]))
    seen.discard(id(v))
    return ok


def _ref_repr(v):
    """Python's repr of an acyclic nest of builtin containers and atoms, dict keys in sorted order when they can be sorted
    (reprlib's convention, which glom's trace lines follow); no depth or length limit"""
    if type(v) is list:
        return '[' + ', '.join(_ref_repr(x) for x in v) + ']'
    if type(v) is tuple:
        return '(' + ', '.join(_ref_repr(x) for x in v) + (',)' if len(v) == 1 else ')')
    if type(v) is dict:
        try:
            keys = sorted(v)
        except Exception:
            keys = list(v)
        return '{' + ', '.join('%s: %s' % (_ref_repr(k), _ref_repr(v[k])) for k in keys) + '}'
    return repr(v)


def run_message(case):
    import glom
    entry = message_cases()[case['i']]
    name, target, spec = entry[:3]
    needs = entry[3] if len(entry) > 3 else []
    forbidden = entry[4] if len(entry) > 4 else []
    try:
        glom.glom(target, spec)
        return {'name': name, 'raised': False}
    except Exception as e:
        out = {'name': name, 'raised': True, 'cls': type(e).__name__}
        try:
            text = str(e)
        except BaseException as ee:  # noqa: B036
            out['str_failed'] = type(ee).__name__
            return out
        tl = text.split('\n')
        out['missing'] = [x for x in needs if x not in text]
        caps = entry[5] if len(entry) > 5 else {}
        out['repeated'] = ['%s x%d' % (x, text.count(x)) for x, n in caps.items() if text.count(x) > n]
        out['leaked'] = [x for x in forbidden if x in text]
        out['has_trace'] = len(tl) > 2 and tl[1] == ' Target-spec trace (most recent last):'
        out['first_is_target'] = len(tl) > 2 and tl[2].startswith(' - Target: ')
        try:
            from glom.core import bbrepr
            # what the root target looks like: Python's own repr for acyclic nests of builtin containers and atoms (no depth or
            # length limit of its own), glom's bbrepr otherwise
            root = _ref_repr(target) if _plain_acyclic(target) else bbrepr(target).replace("\\'", "'")
            shown = tl[2][len(' - Target: '):] if len(tl) > 2 else ''
            core = re.sub(r'\.\.\.( \(len=\d+\))?$', '', shown)
            out['first_is_root'] = (shown == root) or (core != shown and root.startswith(core))
        except Exception:
            out['first_is_root'] = True
        orig = getattr(e, '_GlomError__wrapped', e)
        try:
            ol = ''.join(traceback.format_exception_only(type(orig), orig)).strip().split('\n')[-1]
        except BaseException as ee:  # noqa: B036
            ol = 'format failed: %s' % type(ee).__name__
        out['last_ok'] = tl[-1] == ol and '<exception str() failed>' not in tl[-1]
        out['last'] = tl[-1][:200]
        out['width_ok'] = all(len(x) <= glom.core.TRACE_WIDTH for x in tl[2:] if x.startswith(' - Target: ') or x.startswith(' - Spec: '))
        return out


def run_impl(case):
    k = case['kind']
    if k == 'trace':
        return run_trace(case)
    if k == 'value':
        return run_value(case)
    return run_message(case)


# ---------- generation ----------
def corpus():
    out = [
        {'kind': 'trace', 'tree': ['chain', 1, [['alt', 2, [['leaf', 3, False], ['leaf', 4, True]]], ['leaf', 5, True], ['leaf', 6, False]]]},
        {'kind': 'trace', 'tree': ['chain', 1, [['leaf', 2, True], ['alt', 3, [['chain', 4, [['leaf', 5, True], ['leaf', 6, False]]],
                                                                                   ['chain', 7, [['leaf', 8, True], ['leaf', 9, False]]]]]]]},
        {'kind': 'trace', 'tree': ['nest', 1, [['switch', 2, [[['leaf', 3, False], ['leaf', 4, True]], [['leaf', 5, True], ['leaf', 6, False]]]]]]},
        {'kind': 'trace', 'tree': ['alt', 1, [['alt', 2, [['leaf', 3, False]]], ['or', 4, [['leaf', 5, False], ['leaf', 6, False]]]]]},
        # one failed alternative followed by one whose value is skipped: the failed one is still a branch of the trace
        {'kind': 'trace', 'tree': ['alt', 1, [['leaf', 2, False], ['skip', 3]]]},
        {'kind': 'trace', 'tree': ['chain', 1, [['leaf', 2, True], ['alt', 3, [['skip', 4], ['leaf', 5, False], ['skip', 6]]]]]},
        # F28: one recorded branch (a guard refusing after its sub-spec succeeded) that is not the last child, both with children
        {'kind': 'trace', 'tree': ['alt', 1, [['guard', 2, False, ['leaf', 3, True]], ['chain', 4, [['skip', 5]]]]]},
        {'kind': 'trace', 'tree': ['chain', 1, [['leaf', 2, True], ['alt', 3, [['guard', 4, False, ['nest', 5, [['leaf', 6, True]]]], ['nest', 7, [['leaf', 8, True]]], ['skip', 9]]]]]},
        {'kind': 'trace', 'tree': ['guard', 1, True, ['or', 2, [['guard', 3, False, ['leaf', 4, True]], ['chain', 5, [['leaf', 6, True], ['leaf', 7, False]]]]]]},
        # F33: a Coalesce that recovered through its default is a finished step, not part of the failure
        {'kind': 'trace', 'tree': ['chain', 1, [['altd', 2, [['leaf', 3, False], ['leaf', 4, False]]], ['leaf', 5, False]]]},
        {'kind': 'trace', 'tree': ['guard', 1, False, ['altd', 2, [['leaf', 3, False]]]]},
        {'kind': 'trace', 'tree': ['alt', 1, [['leaf', 2, False], ['chain', 3, [['altd', 4, [['leaf', 5, False]]], ['skip', 6]]]]]},
        {'kind': 'trace', 'tree': ['nest', 1, [['altd', 2, [['chain', 3, [['leaf', 4, True], ['leaf', 5, False]]], ['skip', 6]]], ['guard', 7, False, ['altd', 8, [['skip', 9]]]]]]},
        # Not: a failed sub-spec is forgiven, a passing one makes the Not itself refuse
        {'kind': 'trace', 'tree': ['chain', 1, [['not', 2, ['leaf', 3, False]], ['leaf', 4, False]]]},
        {'kind': 'trace', 'tree': ['alt', 1, [['not', 2, ['leaf', 3, True]], ['leaf', 4, False]]]},
        {'kind': 'trace', 'tree': ['guard', 1, False, ['not', 2, ['chain', 3, [['leaf', 4, True], ['leaf', 5, False]]]]]},
        {'kind': 'trace', 'tree': ['chain', 1, [['and', 2, [['leaf', 3, True], ['leaf', 4, False], ['leaf', 5, False]]], ['leaf', 6, True]]]},
        {'kind': 'trace', 'tree': ['chain', 1, [['and', 2, [['leaf', 3, True], ['leaf', 4, True]]], ['leaf', 5, False]]]},
        {'kind': 'trace', 'tree': ['alt', 1, [['and', 2, [['alt', 3, [['leaf', 4, False], ['leaf', 5, True]]], ['leaf', 6, False]]], ['leaf', 7, False]]]},
    ]
    out += [{'kind': 'message', 'i': i} for i in range(N_MESSAGE)]
    return out


def generate(rng, tier):
    n, nv = (1400, 400) if tier == 'quick' else (12000, 3000)
    out = []
    for _ in range(n):
        ctr = [0]
        out.append({'kind': 'trace', 'tree': to_ir(gen_tree(rng, rng.randint(1, 4), ctr))})
    for _ in range(nv):
        v = rng.choice([['str', 'x' * rng.randint(0, 40)], ['str', "it's \"q\" " * rng.randint(1, 5)], ['list', rng.randint(0, 30)],
                        ['dict', rng.randint(0, 12)], ['int', 10 ** rng.randint(0, 30)], ['nolen'], ['tuple', rng.randint(0, 12)]])
        out.append({'kind': 'value', 'value': v, 'maxlen': rng.choice([0, 1, 3, 5, 10, 11, 12, 13, 14, 15, 16, 20, 30, 50, 80, 108])})
    return out


# ---------- Coq side ----------
def tr_coq(t):
    return '(TR %s %s %s %s)' % (cnat(t[0]), cnat(t[1]), '(Some 1)' if t[2] else 'None', clist(clist(tr_coq(x) for x in b) for b in t[3]))


def cstr_any(s):
    if any((ord(c) > 126 or ord(c) < 32) for c in s):
        raise pyval.Unrepresentable('non-ascii text')
    return '"%s"' % s.replace('"', '""')


TRIVIAL = '(TValue "" None 5 "")'


def coq_case(case, out):
    if 'harness_error' in out or 'harness_timeout' in out or case['kind'] == 'message':
        return TRIVIAL
    try:
        if case['kind'] == 'trace':
            if out['ok']:
                return '(TTrace %s true [] [])' % ir_coq(case['tree'])
            lines = []
            for prefix, kind, i in out['lines']:
                k = {'target': 'KTarget', 'spec': 'KSpec', 'err': 'KErr'}[kind]
                ident = 'None' if i is None else ('(Some %s)' % cnat(i if i >= 0 else 4999))
                lines.append('(mkSL %s %s %s)' % (cstr_any(prefix), k, ident))
            return '(TTrace %s false %s %s)' % (ir_coq(case['tree']), clist(tr_coq(t) for t in out['tree']), clist(lines))
        return '(TValue %s %s %s %s)' % (cstr_any(out['s']), 'None' if out['vlen'] is None else '(Some %s)' % cnat(out['vlen']),
                                         cnat(case['maxlen']), cstr_any(out['result']))
    except pyval.Unrepresentable:
        return TRIVIAL


def model_dump_term(case):
    if case['kind'] == 'trace':
        return 't_model (TTrace %s true [] [])' % ir_coq(case['tree'])
    return '0'


def direct_oracle(case, out):
    if 'harness_error' in out or 'harness_timeout' in out:
        return None
    k = case['kind']
    if k == 'trace' and not out['ok']:
        if not out['first'].startswith(' - Target: ' + repr(ROOT)):
            return 'the trace does not begin with the root target: %r' % out['first']
        if out['last'] != out['orig_line']:
            return 'the message does not end with the original error: %r vs %r' % (out['last'], out['orig_line'])
    if k == 'value':
        suffix_len = len('... (len=%s)' % out['vlen']) if out['vlen'] is not None else 3
        if case['maxlen'] >= suffix_len and len(out['result']) > max(case['maxlen'], 0):
            return 'a %d-character value for width %d' % (len(out['result']), case['maxlen'])
    if k == 'message':
        if not out.get('raised'):
            return 'the planted failure %s did not raise' % out['name']
        if out.get('str_failed'):
            return 'str() of the %s raised for %s fails with %s' % (out['cls'], out['name'], out['str_failed'])
        if not out['has_trace'] or not out['first_is_target'] or not out.get('first_is_root', True):
            return 'no target-spec trace beginning with the root target (%s)' % out['name']
        if out.get('missing'):
            return 'the trace of %s does not show %r' % (out['name'], out['missing'])
        if out.get('repeated'):
            return 'the trace of %s repeats lines of one evaluation: %r' % (out['name'], out['repeated'])
        if out.get('leaked'):
            return 'the trace of %s shows %r: a failure that was recovered from, not on the path of the error' % (out['name'], out['leaked'])
        if not out['last_ok']:
            return 'the message does not end with the original error (%s): %r' % (out['name'], out['last'])
        if not out['width_ok']:
            return 'a trace line is wider than TRACE_WIDTH (%s)' % out['name']
    return None


def nontrivial(case, out):
    if case['kind'] == 'trace':
        return depth_of(case['tree']) >= 3 or has_branch(case['tree'])
    if case['kind'] == 'value':
        return len(out.get('s', '')) > case['maxlen']
    return True


def classify(case, out):
    if case['kind'] == 'trace':
        return 'trace:depth%d:%s:%s' % (depth_of(case['tree']), 'branch' if has_branch(case['tree']) else 'linear', 'ok' if out.get('ok') else 'err')
    if case['kind'] == 'value':
        return 'value:%s' % case['value'][0]
    return 'message:%s' % out.get('name')


def python_snippet(case):
    return ('import sys; sys.path.insert(0, "/verif/harness"); sys.path.insert(0, "/repo")\n'
            'import props.c05 as p; print(p.run_impl(%r))' % (case,))
