"""C06 — non-mutating specs are pure: inputs untouched, outcome independent of history."""
import atexit
import warnings

import exccat
import pyspec
import pyval
from lib import cstr, cbool, clist, cz
from specgen import SpecGen

ID = 'C06'
PROPERTY_FILE = 'Properties/C06'
MODEL_FILES = ['Model/Cache', 'Corr/Cache']
GENERATED_DEPS = ['CacheOps.v']
COQ_HEADER = ('From Coq Require Import String ZArith List.\nImport ListNotations.\n'
              'From Glom Require Import Base.PyVal Model.TEval Model.Cache Corr.Cache.\nLocal Open Scope string_scope.\n')
CHECK_FN = 'cc_check'
RULE = ('(a) cache histories: 1-14 Path.from_text calls over a small alphabet of texts (dotted, with * and ** segments, repeats) under '
        'random PATH_STAR settings with _MAX_CACHE set to 0..4 on the class, replayed on the Coq memo model: operation codes and '
        'segments of every returned Path, whether the text is cached afterwards, final key order of both tables. (b) call histories: '
        'a pool of 2-4 (target, spec) pairs from the type-directed generator (no Assign / Delete), 3-8 calls drawn with repeats on the '
        'SAME spec and target objects, started from emptied / warm / overflowed (> 10000 distinct path strings) caches, with PATH_STAR '
        'toggles, registrations of unrelated fresh types and floods in between, some calls with a caller scope mapping; every call\'s '
        'outcome (value with identity labels / exception class / probe log) is compared with the same call made as the first call of a '
        'freshly forked interpreter that has never evaluated anything; target, spec (repr and container identity structure) and scope '
        'mapping are snapshotted before and after every call. (c) 19 hand-written non-mutating scenarios (T arithmetic on lists / sets reached through the target or the scope, reductions, Group, Iter, list / dict literals in argument position at five sites) evaluated repeatedly on the same objects in random orders against a freshly forked interpreter, inputs snapshotted. (d) registrations (exact and fuzzy, get and iterate) after 0-3 earlier lookups against a registry that was registered first. Non-trivial: a history with a repeat, a toggle, a flood or an overflow.')
ASSUMPTIONS = ['user callables in specs are the catalogue\'s (none mutates its argument)',
               'a registration of an unrelated type must not change other outcomes; registrations that are meant to change outcomes are C13\'s']
SHARD = 300

TEXTS = ['a', 'b', 'a.b', 'a.b.c', '*', 'a.*', '**', 'a.**.b', 'x.0', '', 'a..b', '0', 'l.1', 'zz']

_COLD = []


def cold():
    if not _COLD:
        import coldserver
        c = coldserver.Cold()
        _COLD.append(c)
        atexit.register(c.close)
    return _COLD[0]


def corpus():
    return [
        {'kind': 'cache', 'max': 1, 'ops': [[True, 'a'], [True, 'b'], [True, 'c.d'], [True, 'a'], [False, 'a'], [True, 'e'], [False, '*'], [True, '*']]},
        {'kind': 'cache', 'max': 0, 'ops': [[True, 'a.*'], [True, 'a.*'], [True, 'b']]},
    ]


def generate(rng, tier):
    n_cache, n_hist = (900, 260) if tier == 'quick' else (8000, 2500)
    out = []
    for _ in range(n_cache):
        out.append({'kind': 'cache', 'max': rng.choice([0, 1, 2, 3, 4]),
                    'ops': [[rng.random() < 0.7, rng.choice(TEXTS)] for _ in range(rng.randint(1, 14))]})
    for _ in range(n_hist):
        pool = []
        for _ in range(rng.randint(2, 4)):
            g = SpecGen(rng)
            t = g.target(rng.choice([2, 3]))
            c = {'target': t, 'spec': g.spec(t, rng.choice([1, 2, 3]))}
            if rng.random() < 0.25:
                c['scope'] = [['k', rng.choice([1, 'v', {'k': 'list', 'id': 900, 'items': [1, 2]}])]]
            pool.append(c)
        events = []
        for _ in range(rng.randint(3, 8)):
            x = rng.random()
            if x < 0.72:
                events.append(['call', rng.randint(0, len(pool) - 1)])
            elif x < 0.82:
                events.append(['toggle'])
            elif x < 0.9:
                events.append(['register'])
            elif x < 0.93:
                events.append(['paths', rng.randint(1, 30)])
            elif x < 0.97:
                events.append(['rebuild', rng.randint(0, len(pool) - 1)])
            else:
                events.append(['flood'])
        if not any(e[0] == 'call' for e in events):
            events.append(['call', 0])
        out.append({'kind': 'history', 'start': rng.choice(['empty', 'warm', 'warm', 'overflow']), 'pool': pool, 'events': events})
    names = ['list-plus', 'list-plus-t', 'list-times', 'set-or', 'set-minus', 'scope-plus', 'dict-spec-arith', 'sum-lists', 'flatten', 'merge',
             'group', 'iter-all', 'default-list', 'default-dict-t', 'call-list-arg', 'invoke-specs', 'bind-list', 'check-default', 'match-default',
             'check-type-default', 'check-validate-default', 'check-validate-default-t', 'default-empty-dict', 'bind-empty', 'call-empty-args', 'match-default-empty',
             'twin-a', 'twin-b', 'twin-k', 'twin-k-raw']
    for _ in range(12 if tier == 'quick' else 120):
        pick = rng.sample(names, rng.randint(2, 5))
        out.append({'kind': 'scenarios', 'names': pick, 'order': [rng.choice(pick) for _ in range(rng.randint(3, 9))]})
    out.append({'kind': 'scenarios', 'names': names, 'order': names + names})
    out.append({'kind': 'scenarios', 'names': names, 'order': list(reversed(names)) + names})
    for k in (0, 1, 3):
        out.append({'kind': 'registry', 'lookups_before': k})
    return out


# ---------- implementation side ----------
def path_obs(p):
    ops = p.path_t.__ops__
    codes = ''.join(ops[1::2])
    segs = [a for c, a in zip(ops[1::2], ops[2::2]) if c == 'P' and isinstance(a, str)]
    return codes, segs


def run_cache(case):
    import glom.core as core
    P = core.Path
    saved = (P._CACHE, P._MAX_CACHE, core.PATH_STAR, P._STAR_WARNED)
    out = {'ops': []}
    try:
        P._CACHE = {True: {}, False: {}}
        P._MAX_CACHE = case['max']
        fresh_ok = True
        for star, text in case['ops']:
            core.PATH_STAR = star
            with warnings.catch_warnings():
                warnings.simplefilter('ignore')
                p = P.from_text(text)
            codes, segs = path_obs(p)
            out['ops'].append([codes, segs, text in P._CACHE[star]])
            # the same text created with no cache at all
            keep = P._CACHE
            P._CACHE = {True: {}, False: {}}
            with warnings.catch_warnings():
                warnings.simplefilter('ignore')
                q = P.from_text(text)
            P._CACHE = keep
            if q.path_t.__ops__ != p.path_t.__ops__:
                fresh_ok = False
        out['keys_star'] = list(P._CACHE[True])
        out['keys_plain'] = list(P._CACHE[False])
        out['fresh_equal'] = fresh_ok
    finally:
        P._CACHE, P._MAX_CACHE, core.PATH_STAR, P._STAR_WARNED = saved
    return out


def struct_ids(o, depth=0):
    """identity structure of a spec made of plain containers"""
    if depth > 6:
        return None
    if isinstance(o, dict):
        return ('d', id(o), [(struct_ids(k, depth + 1), struct_ids(v, depth + 1)) for k, v in o.items()])
    if isinstance(o, (list, tuple, set, frozenset)):
        items = list(o) if not isinstance(o, (set, frozenset)) else sorted(o, key=repr)
        return (type(o).__name__, id(o), [struct_ids(x, depth + 1) for x in items])
    return ('o', id(o))


def poison(res, r, depth=0):
    """the caller owns the result: wreck every container glom allocated for it (those that are not input objects), so that
    a later call handing out the same object again shows"""
    if depth > 6 or id(res) in r.label:
        return
    if isinstance(res, dict):
        for v in list(res.values()):
            poison(v, r, depth + 1)
        res.clear()
        res['<poisoned>'] = True
    elif isinstance(res, list):
        for v in list(res):
            poison(v, r, depth + 1)
        del res[:]
        res.append('<poisoned>')
    elif isinstance(res, tuple):
        for v in res:
            poison(v, r, depth + 1)


_FLOOD = [0]


def flood(n):
    import glom.core as core
    for _ in range(n):
        _FLOOD[0] += 1
        core.Path.from_text('flood%d.x' % _FLOOD[0])


def run_history(case):
    import glom
    import glom.core as core
    P = core.Path
    saved_star = core.PATH_STAR
    out = {'calls': [], 'problems': []}
    try:
        if case['start'] == 'empty':
            P._CACHE[True].clear()
            P._CACHE[False].clear()
            core._DEFAULT_SCOPE[core.TargetRegistry]._type_cache.clear()
        elif case['start'] == 'overflow':
            if len(P._CACHE[core.PATH_STAR]) <= P._MAX_CACHE:
                flood(P._MAX_CACHE + 2 - len(P._CACHE[core.PATH_STAR]))
        out['cache_len_at_start'] = len(P._CACHE[core.PATH_STAR])
        built = []
        for c in case['pool']:
            r = pyval.Realiser()
            built.append((r, r.build(c['target']), pyspec.build(c['spec'], r),
                          {k: r.build(v) for k, v in c.get('scope', [])} if c.get('scope') else None))
        for ev in case['events']:
            if ev[0] == 'toggle':
                core.PATH_STAR = not core.PATH_STAR
            elif ev[0] == 'register':
                cls = type('Fresh%d' % len(out['calls']), (), {})
                glom.register(cls, get=getattr)
            elif ev[0] == 'paths':
                flood(ev[1])
            elif ev[0] == 'flood':
                flood(200)
            elif ev[0] == 'rebuild':
                # the pair is built again from its description: the old objects die, their ids may be recycled
                c = case['pool'][ev[1]]
                built[ev[1]] = None
                r = pyval.Realiser()
                built[ev[1]] = (r, r.build(c['target']), pyspec.build(c['spec'], r),
                                {k: r.build(v) for k, v in c.get('scope', [])} if c.get('scope') else None)
            else:
                i = ev[1]
                c = case['pool'][i]
                r, target, spec, scope = built[i]
                before = (repr(spec), struct_ids(spec), repr(r.encode(target)))
                scope_before = None if scope is None else (list(scope.keys()), [id(v) for v in scope.values()], repr(scope))
                del pyval.CALL_LOG[:]
                with warnings.catch_warnings():
                    warnings.simplefilter('ignore')
                    try:
                        res = glom.glom(target, spec, **({'scope': scope} if scope is not None else {}))
                        o = {'ok': r.encode(res)}
                    except Exception as e:
                        o = pyval.exc_outcome(e)
                o['log'] = [[n, r.encode(x)] for n, x in pyval.CALL_LOG]
                after = (repr(spec), struct_ids(spec), repr(r.encode(target)))
                if before[0] != after[0] or before[1] != after[1]:
                    out['problems'].append('call %d changed its spec' % len(out['calls']))
                if before[2] != after[2] or r.encode(target) != c['target']:
                    out['problems'].append('call %d changed its target' % len(out['calls']))
                if scope is not None and scope_before != (list(scope.keys()), [id(v) for v in scope.values()], repr(scope)):
                    out['problems'].append('call %d changed the caller\'s scope mapping' % len(out['calls']))
                ref = cold().ask(c, core.PATH_STAR)
                ref.pop('scope_untouched', None)
                if ref != o:
                    out['problems'].append('call %d (pool %d, PATH_STAR=%s) differs from the cold run: %r vs cold %r'
                                           % (len(out['calls']), i, core.PATH_STAR, o, ref))
                out['calls'].append([i, o.get('raise', 'ok')])
                if 'ok' in o:
                    poison(res, r)
        out['cache_len_at_end'] = len(P._CACHE[core.PATH_STAR])
    finally:
        core.PATH_STAR = saved_star
    return out


# ---------- hand-written non-mutating scenarios: T arithmetic on containers, reductions, argument literals ... ----------
def _scenarios():
    import glom
    from glom import T, S, Coalesce, Call, Invoke, Sum, Flatten, Merge, Iter, Check, Match, Val, Spec
    from glom.grouping import Group
    return {
        'list-plus': (lambda: {'xs': [1, 2], 'ys': [3]}, lambda: T['xs'] + [9], None),
        'list-plus-t': (lambda: {'xs': [1, 2], 'ys': [3]}, lambda: (T['xs'] + T['ys']) + T['xs'], None),
        'list-times': (lambda: {'xs': [7, 8]}, lambda: (T['xs'] * 2)[T['xs'].__('len__')() - 1], None),
        'set-or': (lambda: {'s': {1}, 'u': {2}}, lambda: T['s'] | T['u'], None),
        'set-minus': (lambda: {'s': {1, 2}, 'u': {2}}, lambda: T['s'] - T['u'], None),
        'scope-plus': (lambda: {'xs': [1, 2]}, lambda: S['base'] + T['xs'], lambda: {'base': [0]}),
        'dict-spec-arith': (lambda: {'tags': ['a', 'b'], 'seen': {1, 2}}, lambda: {'tags': T['tags'] + ['z'], 'seen': T['seen'] | {3}, 'twice': T['tags'] * 2}, None),
        'sum-lists': (lambda: [[1], [2, 3]], lambda: Sum(init=list), None),
        'flatten': (lambda: [[1, [2]], [3]], lambda: Flatten(), None),
        'merge': (lambda: [{'a': 1}, {'a': 2, 'b': 3}], lambda: Merge(), None),
        'group': (lambda: [1, 2, 3, 4], lambda: Group({T % 2: [T]}), None),
        'iter-all': (lambda: [1, 2, 3, 4], lambda: Iter().filter(lambda x: x % 2).map(lambda x: x * 2).all(), None),
        'default-list': (lambda: {}, lambda: Coalesce('zz', default=[]), None),
        'default-dict-t': (lambda: {'n': 5}, lambda: Coalesce('zz', default={'k': [T['n']]}), None),
        'call-list-arg': (lambda: {'sep': '+', 'a': 'x', 'b': 'y'}, lambda: T['sep'].join([T['a'], T['b']]), None),
        'invoke-specs': (lambda: {'a': [3, 1, 2]}, lambda: Invoke(sorted).specs('a'), None),
        'bind-list': (lambda: {'n': 1}, lambda: (S(x=[T['n'], [T['n']]]), S.x), None),
        'check-default': (lambda: {'n': 0}, lambda: ('n', Check(default=[])), None),
        'check-type-default': (lambda: {'n': 0}, lambda: ('n', Check(type=str, default=[])), None),
        'check-validate-default': (lambda: {'n': 0}, lambda: ('n', Check(validate=lambda x: False, default=[])), None),
        'check-validate-default-t': (lambda: {'n': 0}, lambda: Check(validate=lambda x: False, default={'was': [T['n']]}), None),
        'default-empty-dict': (lambda: {}, lambda: Coalesce('zz', default={}), None),
        'bind-empty': (lambda: {'name': 'n'}, lambda: (S(seen={}, order=[]), S.seen), None),
        'call-empty-args': (lambda: {'f': lambda a, b: (a, b)}, lambda: T['f']([], {}), None),
        'match-default-empty': (lambda: {'n': 0}, lambda: Match({'n': str}, default=[]), None),
        'match-default': (lambda: {'n': 0}, lambda: Match({'n': str}, default={'bad': [T]}), None),
        # three failing calls whose exception classes are different objects with one __name__: the class seen by the caller
        # may not depend on which of them an earlier call raised
        'twin-a': (lambda: {'n': 0}, lambda: ('n', exccat.raiser('UTwinA')), None),
        'twin-b': (lambda: {'n': 0}, lambda: ('n', exccat.raiser('UTwinB')), None),
        'twin-k': (lambda: {'n': 0}, lambda: Coalesce(('n', exccat.raiser('UTwinK')), skip_exc=KeyError, default='caught as KeyError'), None),
        'twin-k-raw': (lambda: {'n': 0}, lambda: ('n', exccat.raiser('UTwinK')), None),
    }


def _freeze_any(v, depth=0):
    if depth > 8:
        return '...'
    if isinstance(v, dict):
        return {'dict': [[_freeze_any(k, depth + 1), _freeze_any(x, depth + 1)] for k, x in v.items()]}
    if isinstance(v, (list, tuple)):
        return {type(v).__name__: [_freeze_any(x, depth + 1) for x in v]}
    if isinstance(v, (set, frozenset)):
        return {'set': sorted(repr(x) for x in v)}
    if v is None or isinstance(v, (bool, int, str, float)):
        return v
    return {'obj': type(v).__name__}


def _outcome(fn):
    try:
        return {'ok': _freeze_any(fn())}
    except Exception as e:
        return {'raise': type(e).__name__,
                'isa': [n for n in exccat.USER_NAMES + ['KeyError', 'ValueError', 'LookupError', 'GlomError'] if isinstance(e, exccat.cls(n))]}


def scenario_outcome(name):
    """the scenario evaluated once, as the first thing this interpreter does (used in the forked cold child)"""
    import glom
    mk_t, mk_s, mk_sc = _scenarios()[name]
    kw = {'scope': mk_sc()} if mk_sc else {}
    return _outcome(lambda: glom.glom(mk_t(), mk_s(), **kw))


def run_scenarios(case):
    import glom
    import copy
    out = {'problems': []}
    built = {}
    for name in case['names']:
        mk_t, mk_s, mk_sc = _scenarios()[name]
        built[name] = (mk_t(), mk_s(), mk_sc() if mk_sc else None)
    colds = {}
    for name in case['order']:
        target, spec, scope = built[name]
        t_before, s_before = copy.deepcopy(target), repr(spec)
        sc_before = copy.deepcopy(scope)
        ids_before = struct_ids(target)
        kw = {'scope': scope} if scope is not None else {}
        got = []

        def call():
            got.append(glom.glom(target, spec, **kw))
            return got[0]
        o = _outcome(call)
        if got:
            # the caller owns the result: every container of it that is not an input object is scribbled over — a later evaluation
            # of the same spec object handing out the same container again (a spec literal, cached state) then shows
            keep = set()
            _reach(target, keep)
            _reach(scope, keep)
            _scribble(got[0], keep)
        if target != t_before or struct_ids(target) != ids_before:
            out['problems'].append('%s: the target was changed: %r -> %r' % (name, t_before, target))
        if repr(spec) != s_before:
            out['problems'].append('%s: the spec was changed' % name)
        if scope is not None and scope != sc_before:
            out['problems'].append('%s: the caller\'s scope mapping was changed: %r -> %r' % (name, sc_before, scope))
        if name not in colds:
            colds[name] = cold().ask_scenario(name)
        if o != colds[name]:
            out['problems'].append('%s: after this history %r, in a fresh interpreter %r' % (name, o, colds[name]))
    return out


def _reach(o, acc, depth=0):
    if depth > 8 or id(o) in acc:
        return
    if isinstance(o, (dict, list, tuple, set, frozenset)):
        acc.add(id(o))
        for x in (list(o.values()) + list(o.keys()) if isinstance(o, dict) else list(o)):
            _reach(x, acc, depth + 1)


def _scribble(res, keep, depth=0):
    if depth > 8 or id(res) in keep:
        return
    if isinstance(res, dict):
        for v in list(res.values()):
            _scribble(v, keep, depth + 1)
        res.clear()
        res['<scribbled>'] = True
    elif isinstance(res, list):
        for v in list(res):
            _scribble(v, keep, depth + 1)
        del res[:]
        res.append('<scribbled>')
    elif isinstance(res, tuple):
        for v in res:
            _scribble(v, keep, depth + 1)


def run_registry_history(case):
    """a registration between calls: the outcome afterwards is that of a registry that was registered first and never looked at"""
    import glom

    class Rec(dict):
        pass

    class Node:
        def __init__(self):
            self.kids = [1, 2]

    def handler(obj, key):
        return 'H:%s' % (key,)

    def node_iter(obj):
        return iter(obj.kids)
    def rec_items(obj):
        return iter(sorted(obj.items()))
    out = {'problems': []}
    for exact in (True, False):
        for op in ('get', 'iterate', 'other-op', 'no-op'):
            def register(g):
                if op == 'get':
                    g.register(Rec, get=handler, exact=exact)
                elif op == 'iterate':
                    g.register(Node, iterate=node_iter, exact=exact)
                elif op == 'other-op':
                    # the registration names ANOTHER operation than the one looked up before: the handlers it derives for the
                    # operations it does not name (a dict subclass gets getattr for get) replace what was inherited all the same
                    g.register(Rec, iterate=rec_items, exact=exact)
                else:
                    g.register(Rec, exact=exact)

            def call(g):
                if op in ('get', 'other-op', 'no-op'):
                    return _outcome(lambda: g.glom(Rec(a=1), 'a'))
                return _outcome(lambda: g.glom(Node(), [glom.T]))
            warm = glom.Glommer()
            for _ in range(case['lookups_before']):
                call(warm)
            register(warm)
            after = call(warm)
            fresh = glom.Glommer()
            register(fresh)
            want = call(fresh)
            if after != want:
                out['problems'].append('register(%s, exact=%s) after %d earlier lookups: the next call gives %r, a registry that was never '
                                       'looked at gives %r' % (op, exact, case['lookups_before'], after, want))
    return out


def run_impl(case):
    if case['kind'] == 'cache':
        return run_cache(case)
    if case['kind'] == 'scenarios':
        return run_scenarios(case)
    if case['kind'] == 'registry':
        return run_registry_history(case)
    return run_history(case)


TRIVIAL = '(mkCC 0 [] [] [])'


def coq_case(case, out):
    if case['kind'] != 'cache' or 'harness_error' in out or 'harness_timeout' in out:
        return TRIVIAL
    ops = []
    for (star, text), (codes, segs, cached) in zip(case['ops'], out['ops']):
        ops.append('(mkH %s %s %s %s %s)' % (cbool(star), cstr(text), cstr(codes), clist(cstr(s) for s in segs), cbool(cached)))
    return '(mkCC %s %s %s %s)' % (cz(case['max']), clist(ops), clist(cstr(k) for k in out['keys_star']),
                                   clist(cstr(k) for k in out['keys_plain']))


def model_dump_term(case):
    if case['kind'] != 'cache':
        return '0'
    return 'cc_model %s' % coq_case(case, {'ops': [['', [], False]] * len(case['ops']), 'keys_star': [], 'keys_plain': []})


def direct_oracle(case, out):
    if 'harness_error' in out or 'harness_timeout' in out:
        return 'the history could not be run: %s' % (out.get('harness_error') or 'timeout')
    if case['kind'] == 'cache':
        if out.get('fresh_equal') is False:
            return 'a cached Path differs from the Path created without the cache'
        return None
    if out.get('problems'):
        return '; '.join(out['problems'][:3])
    return None


def nontrivial(case, out):
    if case['kind'] == 'cache':
        texts = [t for _, t in case['ops']]
        return len(set(texts)) < len(texts) or len(set(texts)) > case['max'] + 1
    if case['kind'] in ('scenarios', 'registry'):
        return True
    calls = [e[1] for e in case['events'] if e[0] == 'call']
    return len(set(calls)) < len(calls) or any(e[0] != 'call' for e in case['events']) or case['start'] == 'overflow'


def classify(case, out):
    if case['kind'] == 'cache':
        return 'cache:max%d' % case['max']
    if case['kind'] in ('scenarios', 'registry'):
        return case['kind']
    return 'history:%s:%d-calls' % (case['start'], len(out.get('calls', [])))


def python_snippet(case):
    return ('import sys; sys.path.insert(0, "/verif/harness"); sys.path.insert(0, "/repo")\n'
            'import props.c06 as p; print(p.run_impl(%r))' % (case,))
