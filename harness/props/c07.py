"""C07 — scope bindings are lexically scoped, chain forward, never outlive the call."""
import pyspec
import props.c03 as c03

ID = 'C07'
PROPERTY_FILE = 'Properties/C07'
MODEL_FILES = c03.MODEL_FILES
GENERATED_DEPS = []
COQ_HEADER = c03.COQ_HEADER
CHECK_FN = c03.CHECK_FN
UNMODELLED_FN = c03.UNMODELLED_FN
RULE = ('random context trees (depth <= 3) mixing tuple, Pipe, dict, list, Coalesce, And, Or, Switch, Spec(scope=) and Ref with 2-7 '
        'holes; 1-3 holes receive binders for one name (S(k=Val(marker)), A.k, A.globals.k, Let, Spec(scope=k), Switch key), 1-3 holes '
        'receive readers (S.k, S["k"], S.globals.k) each wrapped as And((Coalesce(reader, default="MISSING"), probe_n), T) so that the '
        'probe log records what every reader saw while the position itself returns the target; the remaining holes are neutral; '
        'scope= is passed for a second name; every case is evaluated twice with the same spec object (globals must not survive) and the '
        "caller's scope mapping is compared before/after. thorough enumerates every (binder hole, reader hole) pair of 60 skeletons. "
        'Non-trivial: a binder and a reader in different holes with >= 1 composite node between them.')
ASSUMPTIONS = ['Vars objects are modelled through S.globals-style store cells; Regex group bindings are covered under C09']
SHARD = 300

NEUTRAL = ['T', 'T', []]


def reader(kind, probe):
    if kind == 'S.k':
        rd = ['T', 'S', [['.', ['Str', 'k']]]]
    elif kind == "S['k']":
        rd = ['T', 'S', [['[', ['Str', 'k']]]]
    elif kind == 'S.u':
        rd = ['T', 'S', [['.', ['Str', 'u']]]]
    elif kind == 'S.j':
        rd = ['T', 'S', [['.', ['Str', 'j']]]]
    elif kind == 'S.v.k':
        rd = ['T', 'S', [['.', ['Str', 'v']], ['.', ['Str', 'k']]]]
    else:
        rd = ['T', 'S', [['.', ['Str', 'globals']], ['.', ['Str', 'k']]]]
    return ['And', [['Tuple', [['Coalesce', [rd], ['Lit', 'MISSING'], None, None, None], ['Fn', ['probe', probe]]]], NEUTRAL], None]


def binder(kind, marker):
    if kind == 'S(k=)':
        return ['Bind', [['k', ['Val', marker]]]]
    if kind in ('S(k=,j=S.k)', 'Let(k=,j=S.k)'):
        # the value spec of a later keyword reads the name an earlier keyword of the SAME step binds: it must see the
        # enclosing k (all keywords are evaluated before any is bound)
        sees = ['Coalesce', [['T', 'S', [['.', ['Str', 'k']]]]], ['Lit', 'MISSING'], None, None, None]
        return ['Bind' if kind.startswith('S') else 'Let', [['k', ['Val', marker]], ['j', sees]]]
    if kind == 'A.k':
        return ['AssignScope', False, 'k']
    if kind == 'A.globals.k':
        return ['AssignScope', True, 'k']
    if kind == 'Let':
        return ['Let', [['k', ['Val', marker]]]]
    if kind == 'S(v=Vars(k=))':
        # a Vars object is created afresh by every evaluation of the step that binds it; what is stored in it is shared by everything
        # that sees the binding — and gone with the call
        return ['Bind', [['v', ['Vars', [['k', marker]]]]]]
    if kind == 'S(v=Vars())':
        return ['Bind', [['v', ['Vars', []]]]]
    if kind == 'A.v.k':
        return ['Tuple', [['Val', marker], ['T', 'A', [['.', ['Str', 'v']], ['.', ['Str', 'k']]]]]]
    raise ValueError(kind)


class Ctx:
    def __init__(self, rng):
        self.r = rng
        self.holes = 0

    def hole(self):
        self.holes += 1
        return ['HOLE', self.holes]

    def tree(self, depth):
        r = self.r
        if depth <= 0 or r.random() < 0.25:
            return self.hole()
        k = r.choice(['tuple', 'tuple', 'pipe', 'dict', 'list', 'coalesce', 'and', 'or', 'switch', 'specscope', 'ref'])
        kids = lambda n: [self.tree(depth - 1) for _ in range(n)]  # noqa: E731
        if k == 'tuple':
            return ['Tuple', kids(r.randint(2, 3))]
        if k == 'pipe':
            return ['Pipe', kids(r.randint(2, 3))]
        if k == 'dict':
            ks = kids(r.randint(1, 2))
            return ['Tuple', [['Dict', False, [[['Str', 'd%d' % i], s] for i, s in enumerate(ks)]], ['Val', [0, 1]]]] \
                if False else ['And', [['Dict', False, [[['Str', 'd%d' % i], s] for i, s in enumerate(ks)]], NEUTRAL], None]
        if k == 'list':
            return ['And', [['Tuple', [['Val', {'k': 'list', 'id': 0, 'items': [1, 2]}], ['List', [self.tree(depth - 1)]]]], NEUTRAL], None]
        if k == 'coalesce':
            a, b = kids(2)
            return ['Coalesce', [['Tuple', [a, ['Str', 'zz__missing']]], b], None, None, None, None]
        if k == 'and':
            return ['And', kids(2) + [NEUTRAL], None]
        if k == 'or':
            a, b = kids(2)
            return ['Or', [['Tuple', [a, ['Str', 'zz__missing']]], b], None]
        if k == 'switch':
            a, b = kids(2)
            return ['Switch', [[['Tuple', [self.tree(0), ['Str', 'zz__missing']]], NEUTRAL], [a, b]], None]
        if k == 'specscope':
            return ['Spec', self.tree(depth - 1), [['k', 'from-spec-scope']]]
        return ['Ref', 'r', ['Tuple', [self.tree(depth - 1), ['Fn', ['id']]]]]


def fill(tree, subst):
    if isinstance(tree, list) and tree and tree[0] == 'HOLE':
        return subst.get(tree[1], NEUTRAL)
    if isinstance(tree, list):
        return [fill(x, subst) for x in tree]
    return tree


def make_case(rng, skeleton, nholes, binders, readers):
    subst = {}
    probe = 0
    for h, kind, marker in binders:
        subst[h] = binder(kind, marker)
    for h, kind in readers:
        probe += 1
        subst[h] = reader(kind, probe)
    return {'target': {'k': 'dict', 'od': False, 'id': 1, 'items': [['a', 1]]}, 'spec': fill(skeleton, subst),
            'scope': [['u', 'user-value']], 'repeat': True}


def corpus():
    t = {'k': 'dict', 'od': False, 'id': 1, 'items': [['a', 1]]}
    R = lambda kind, n: reader(kind, n)  # noqa: E731
    return [
        # test_scope_vars style: (A.k, (Val(2), A.k), S.k) — inner binding does not leak
        {'target': t, 'spec': ['Tuple', [binder('S(k=)', 'outer'), ['Tuple', [binder('S(k=)', 'inner'), R('S.k', 1)]], R('S.k', 2)]], 'scope': [], 'repeat': True},
        {'target': t, 'spec': ['Dict', False, [[['Str', 'x'], binder('S(k=)', 'm')], [['Str', 'y'], R('S.k', 1)]]], 'scope': [], 'repeat': True},
        {'target': t, 'spec': ['Tuple', [binder('S(k=)', 'outer'), binder('S(k=,j=S.k)', 'inner'), R('S.j', 1), R('S.k', 2)]], 'scope': [], 'repeat': True},
        {'target': t, 'spec': ['Tuple', [binder('S(k=,j=S.k)', 'inner'), R('S.j', 1)]], 'scope': [], 'repeat': True},
        {'target': t, 'spec': ['Tuple', [binder('A.globals.k', None), ['Dict', False, [[['Str', 'y'], R('S.globals.k', 1)]]]]], 'scope': [], 'repeat': True},
        {'target': t, 'spec': ['Tuple', [R('S.globals.k', 1), binder('A.globals.k', None), R('S.globals.k', 2)]], 'scope': [], 'repeat': True},
        {'target': t, 'spec': ['Switch', [[binder('S(k=)', 'key'), R('S.k', 1)]], None], 'scope': [], 'repeat': True},
        {'target': t, 'spec': ['Tuple', [['Switch', [[binder('S(k=)', 'key'), NEUTRAL]], None], R('S.k', 1)]], 'scope': [], 'repeat': True},
        {'target': t, 'spec': ['Tuple', [R('S.u', 1), binder('S(k=)', 'm'), ['Spec', R('S.k', 2), [['k', 'spec-scope']]], R('S.k', 3)]], 'scope': [['u', 'user']], 'repeat': True},
        # Vars: shared by everything that sees the binding (the write in one dict value is seen by a later step), fresh on every call
        {'target': t, 'spec': ['Tuple', [binder('S(v=Vars(k=))', 'init'), R('S.v.k', 1), binder('A.v.k', 'stored'), R('S.v.k', 2)]], 'scope': [], 'repeat': True},
        {'target': t, 'spec': ['Tuple', [binder('S(v=Vars())', None), ['Dict', False, [[['Str', 'x'], binder('A.v.k', 'w')], [['Str', 'y'], R('S.v.k', 1)]]], R('S.v.k', 2)]], 'scope': [], 'repeat': True},
        {'target': t, 'spec': ['Tuple', [binder('S(v=Vars())', None), ['Tuple', [binder('S(v=Vars(k=))', 'inner'), binder('A.v.k', 'inner-write')]], R('S.v.k', 1)]], 'scope': [], 'repeat': True},
        {'target': t, 'spec': ['Tuple', [binder('A.v.k', 'no-vars'), R('S.v.k', 1)]], 'scope': [], 'repeat': True},
    ] + [{'target': t, 'spec': sp, 'scope': [], 'repeat': True} for sp in argument_binders()]


def argument_binders():
    """a binder in ARGUMENT position (a default=, the value of another S(a=..), a Switch default) is evaluated in a scope of its own:
    what it binds is not visible to the later steps of the chain that owns the argument, and does not shadow an outer binding"""
    R = lambda kind, n: reader(kind, n)  # noqa: E731
    miss = ['Str', 'zz__missing']
    out = []
    for b in (binder('A.k', None), binder('S(k=)', 'arg'), binder('Let', 'arg')):
        out.append(['Tuple', [['Coalesce', [miss], b, None, None, None], R('S.k', 1)]])
        out.append(['Pipe', [['Or', [miss], b, 'ctor'], R('S.k', 1)]])
        out.append(['Tuple', [['Switch', [[miss, NEUTRAL]], b], R('S.k', 1)]])
        out.append(['Tuple', [['Bind', [['a', b]]], R('S.k', 1)]])
        out.append(['Tuple', [binder('S(k=)', 'outer'), ['Coalesce', [miss], b, None, None, None], R('S.k', 1)]])
        out.append(['Tuple', [['Bind', [['a', b], ['j', ['Coalesce', [['T', 'S', [['.', ['Str', 'k']]]]], ['Lit', 'MISSING'], None, None, None]]]], R('S.j', 1)]])
    return out


BINDERS = ['S(k=)', 'S(k=)', 'A.k', 'A.globals.k', 'Let', 'S(k=,j=S.k)', 'Let(k=,j=S.k)', 'S(v=Vars(k=))', 'S(v=Vars())', 'A.v.k', 'A.v.k']
READERS = ['S.k', 'S.k', "S['k']", 'S.globals.k', 'S.u', 'S.j', 'S.j', 'S.v.k', 'S.v.k']


def match_dict_case(rng):
    """a match-dict whose KEY specs bind: a key's binding reaches its own value spec only — not the value spec of the entry
    processed next, whatever the order of the target's entries"""
    binder_key = rng.choice([['AssignScope', False, 'k'], ['Bind', [['k', ['T', 'T', []]]]]])
    rd = ['Auto', ['Tuple', [['Coalesce', [['T', 'S', [['.', ['Str', 'k']]]]], ['Lit', 'MISSING'], None, None, None], ['Fn', ['probe', 1]]]]]
    own = ['Auto', ['Tuple', [['Coalesce', [['T', 'S', [['.', ['Str', 'k']]]]], ['Lit', 'MISSING'], None, None, None], ['Fn', ['probe', 2]]]]]
    if rng.random() < 0.5:
        binder_key = ['Required', binder_key]     # Required(k) is k for scoping: the binding still reaches the entry's own value spec
    entries = [[['Str', 'name'], rd], [binder_key, own]]
    if rng.random() < 0.5:
        entries.reverse()
    items = [['id', 7], ['name', 'x']]
    if rng.random() < 0.5:
        items.reverse()
    if rng.random() < 0.3:
        items.append(['z', 1])
    spec = ['Match', ['Dict', False, entries], None]
    if rng.random() < 0.5:
        spec = ['Tuple', [['Bind', [['k', ['Val', 'outer']]]], spec]]
    return {'target': {'k': 'dict', 'od': False, 'id': 1, 'items': items}, 'spec': spec, 'scope': [], 'repeat': True}


def chain_target(d, base=10):
    """{'n': 0, 'next': {'n': 1, 'next': ... }} of depth d, the last one without 'next'"""
    cur = None
    for i in reversed(range(d)):
        items = [['n', i]] + ([['next', cur]] if cur is not None else [])
        cur = {'k': 'dict', 'od': False, 'id': base + i, 'items': items}
    return cur


def ref_case(rng):
    """Ref(name) resolves to the NEAREST enclosing Ref(name, spec) and may recurse; a definition is visible to what is nested in it
    and to the later steps of its chain, not to sibling dict values; an undefined name fails"""
    use = lambda n: ['Ref', n, None]  # noqa: E731
    down = lambda n, dflt: ['Coalesce', [['Tuple', [['Str', 'next'], use(n)]]], ['Lit', dflt], None, None, None]  # noqa: E731
    probe = lambda i: ['Fn', ['probe', i]]  # noqa: E731
    k = rng.choice(['recursion', 'recursion', 'nearest', 'nearest', 'two-names', 'chained', 'sibling', 'unknown', 'shadow-later'])
    t = chain_target(rng.randint(1, 4))
    if k == 'recursion':
        body = ['Dict', False, [[['Str', 'v'], ['Tuple', [probe(1), ['Str', 'n']]]], [['Str', 'rest'], down('r', 'end')]]]
        if rng.random() < 0.5:
            body = ['Tuple', [probe(2), body]]
        spec = ['Ref', 'r', body]
    elif k == 'nearest':
        inner = ['Ref', 'r', ['Dict', False, [[['Str', 'i'], ['Str', 'n']], [['Str', 'rec'], down('r', 'inner-end')]]]]
        spec = ['Ref', 'r', ['Dict', False, [[['Str', 'o'], ['Str', 'n']], [['Str', 'inner'], inner], [['Str', 'orec'], down('r', 'outer-end')]]]]
    elif k == 'two-names':
        inner = ['Ref', 'q', ['Dict', False, [[['Str', 'i'], ['Str', 'n']], [['Str', 'to-outer'], down('r', 'x')], [['Str', 'to-inner'], down('q', 'y')]]]]
        spec = ['Ref', 'r', ['Dict', False, [[['Str', 'o'], ['Tuple', [probe(1), ['Str', 'n']]]], [['Str', 'inner'], ['Coalesce', [['Tuple', [['Str', 'next'], inner]]], ['Lit', 'none'], None, None, None]]]]]
        t = chain_target(rng.randint(1, 3))
    elif k == 'chained':
        # the definition is made by an earlier step of the chain; the later step uses it on the next level
        spec = ['Tuple', [['Ref', 'r', ['Dict', False, [[['Str', 'v'], ['Str', 'n']], [['Str', 'rest'], down('r', 'end')]]]], probe(1), ['Str', 'rest'], probe(2)]]
        if rng.random() < 0.5:
            spec = ['Tuple', [['Ref', 'r', ['Tuple', [['Str', 'n'], probe(1)]]], ['Val', chain_target(2, 50)], ['Str', 'next'], use('r')]]
    elif k == 'sibling':
        spec = ['Dict', False, [[['Str', 'a'], ['Ref', 'r', ['Str', 'n']]], [['Str', 'b'], ['Coalesce', [use('r')], ['Lit', 'not-visible'], None, None, ['KeyError', 'GlomError']]]]]
    elif k == 'unknown':
        spec = rng.choice([use('zz'), ['Tuple', [['Ref', 'r', ['Str', 'n']], ['Val', chain_target(2, 50)], use('rr')]], ['Ref', 'r', ['Dict', False, [[['Str', 'x'], use('q')]]]]])
    else:
        # a later step redefines the name: uses after it see the new definition, the first definition's own recursion keeps its own
        spec = ['Tuple', [['Ref', 'r', ['Dict', False, [[['Str', 'first'], ['Str', 'n']], [['Str', 'rest'], down('r', 'e1')]]]],
                          ['Val', chain_target(3, 50)], ['Ref', 'r', ['Dict', False, [[['Str', 'second'], ['Str', 'n']], [['Str', 'rest'], down('r', 'e2')]]]]]]
    return {'target': t, 'spec': spec, 'scope': [], 'repeat': True}


def generate(rng, tier):
    out = [match_dict_case(rng) for _ in range(60 if tier == 'quick' else 400)]
    out += [ref_case(rng) for _ in range(80 if tier == 'quick' else 500)]
    n = 1200 if tier == 'quick' else 8000
    for _ in range(n):
        c = Ctx(rng)
        sk = c.tree(rng.choice([1, 2, 3]))
        while c.holes < 2:
            c = Ctx(rng)
            sk = c.tree(rng.choice([2, 3]))
        holes = list(range(1, c.holes + 1))
        rng.shuffle(holes)
        nb = rng.randint(1, min(3, len(holes) - 1))
        nr = rng.randint(1, min(3, len(holes) - nb))
        bs = [(holes[i], rng.choice(BINDERS), 'm%d' % i) for i in range(nb)]
        rs = [(holes[nb + i], rng.choice(READERS)) for i in range(nr)]
        out.append(make_case(rng, sk, c.holes, bs, rs))
    if tier == 'thorough':
        for _ in range(60):
            c = Ctx(rng)
            sk = c.tree(2)
            if c.holes < 2 or c.holes > 6:
                continue
            for p in range(1, c.holes + 1):
                for q in range(1, c.holes + 1):
                    if p != q:
                        for bk in ['S(k=)', 'A.globals.k']:
                            out.append(make_case(rng, sk, c.holes, [(p, bk, 'm')], [(q, 'S.k' if bk == 'S(k=)' else 'S.globals.k')]))
    return out


def run_impl(case):
    out = pyspec.run_glom(case)
    if case.get('repeat'):
        out2 = pyspec.run_glom(case, 'twice')
        out['second_run_same'] = (out2.get('ok') == out.get('ok') and out2.get('raise') == out.get('raise') and out2['log'] == out['log'])
    # the other public entry points: values passed through scope= (to the call, to the Spec, to both) are readable the same way
    if case.get('scope'):
        # one Spec object, first run with the caller's scope, then without: nothing of the first call stays in the Spec
        o3 = pyspec.run_glom(case, 'spec-reuse')
        base = pyspec.run_glom(dict(case, scope=[]))
        if (o3.get('ok'), o3.get('raise'), o3['log']) != (base.get('ok'), base.get('raise'), base['log']):
            out['entry_diff'] = 'the same Spec object run with scope= and then without: %r / log %r, without any scope %r / log %r' % (
                o3.get('ok', o3.get('raise')), o3['log'], base.get('ok', base.get('raise')), base['log'])
            return out
    for entry in ('spec', 'spec-split', 'spec-own', 'glommer'):
        if entry == 'glommer' and case.get('scope'):
            continue                                   # Glommer.glom passes its own scope: no scope= of the caller's
        o2 = pyspec.run_glom(case, entry)
        if (o2.get('ok'), o2.get('raise'), o2['log']) != (out.get('ok'), out.get('raise'), out['log']):
            out['entry_diff'] = 'entry point %s: %r / log %r, glom.glom: %r / log %r' % (
                entry, o2.get('ok', o2.get('raise')), o2['log'], out.get('ok', out.get('raise')), out['log'])
            break
    return out


coq_case = c03.coq_case
model_dump_term = c03.model_dump_term
python_snippet = c03.python_snippet


def direct_oracle(case, out):
    if out.get('second_run_same') is False:
        return 'the second evaluation of the same spec differs from the first (state survived the call)'
    if out.get('scope_untouched') is False:
        return "the caller's scope mapping was modified"
    if out.get('entry_diff'):
        return out['entry_diff']
    return None


def nontrivial(case, out):
    return len(out.get('log', [])) >= 1 and case['spec'][0] in ('Tuple', 'Pipe', 'And', 'Or', 'Coalesce', 'Switch', 'Spec', 'Ref', 'Dict')


def classify(case, out):
    seen = [v for _, v in out.get('log', [])]
    return '%s:%d readers:%d saw-binding' % (case['spec'][0], len(seen), sum(1 for v in seen if v != 'MISSING'))
