"""C08 — modes apply exactly to the wrapped spec; Fill and argument mode keep shape."""
import pyspec
import props.c03 as c03

ID = 'C08'
PROPERTY_FILE = 'Properties/C08'
MODEL_FILES = c03.MODEL_FILES
GENERATED_DEPS = []
COQ_HEADER = c03.COQ_HEADER
CHECK_FN = c03.CHECK_FN
UNMODELLED_FN = c03.UNMODELLED_FN
RULE = ('nestings (depth <= 3) of the mode wrappers Auto / Fill / Match placed at every step position of tuples and Pipes, as dict '
        'values, Coalesce branches and Switch cases, preceded and followed by the four mode-sensitive probes (a string, a tuple, a list, '
        'a dict) and T leaves; argument-position literals (Coalesce default, Call arguments, S(k=...) values) built from nested '
        'dict / list / tuple / set shapes with T leaves, strings and callables. Observed: result (type, shape, identity) or exception '
        'class. Non-trivial: a wrapper followed or preceded by a probe inside the same chain / container, or a literal of depth >= 2.')
ASSUMPTIONS = ['Group as a wrapper is exercised under C16; cyclic / shared argument literals (8 shapes x 4 argument sites) are decided on the implementation side by an '
               'isomorphism check against the literal (the tree-shaped IR cannot express them); no graph theorem yet']
SHARD = 300

T = ['T', 'T', []]
PROBES = [['Str', 'a'], ['Tuple', [['Str', 'a'], ['Str', 'b']]], ['List', [['Str', 'b']]], ['Dict', False, [[['Str', 'x'], ['Str', 'a']]]],
          ['Str', 'a'], T, ['T', 'T', [['[', ['Str', 'a']]]]]


def target():
    return {'k': 'dict', 'od': False, 'id': 1, 'items': [
        ['a', {'k': 'dict', 'od': False, 'id': 2, 'items': [['b', {'k': 'list', 'id': 3, 'items': [{'k': 'dict', 'od': False, 'id': 4, 'items': [['b', 7]]}]}], ['a', 5]]}],
        ['b', 9]]}


class Gen:
    def __init__(self, rng):
        self.r = rng

    def ctx(self, depth):
        r = self.r
        if depth <= 0 or r.random() < 0.3:
            return r.choice(PROBES)
        k = r.choice(['wrap', 'wrap', 'wrap', 'tuple', 'pipe', 'dict', 'coalesce', 'switch', 'list'])
        if k == 'wrap':
            w = r.choice(['Fill', 'Fill', 'Auto', 'Match'])
            inner = self.ctx(depth - 1)
            return [w, inner] if w != 'Match' else ['Match', inner, None if r.random() < 0.7 else ['Lit', 'no-match']]
        if k in ('tuple', 'pipe'):
            return ['Tuple' if k == 'tuple' else 'Pipe', [self.ctx(depth - 1) for _ in range(r.randint(2, 3))]]
        if k == 'dict':
            return ['Dict', False, [[['Str', 'k%d' % i], self.ctx(depth - 1)] for i in range(r.randint(1, 2))]]
        if k == 'coalesce':
            return ['Coalesce', [self.ctx(depth - 1), self.ctx(depth - 1)], r.choice([None, ['Lit', 'd'], self.literal(2)]), None, None, None]
        if k == 'switch':
            return ['Switch', [[self.ctx(depth - 1), self.ctx(depth - 1)], [T, self.ctx(depth - 1)]], None]
        return ['List', [self.ctx(depth - 1)]]

    def literal(self, depth):
        """an argument-position literal: containers rebuilt, T leaves evaluated, strings and callables literal"""
        r = self.r
        if depth <= 0 or r.random() < 0.3:
            return r.choice([T, ['T', 'T', [['[', ['Str', 'b']]]], ['Str', 'a'], ['Lit', 3], ['Fn', ['len']], ['Lit', None],
                             ['Spec', ['Str', 'b'], []], ['Val', 'v']])
        k = r.choice(['list', 'tuple', 'dict', 'set'])
        if k == 'list':
            return ['List', [self.literal(depth - 1) for _ in range(r.randint(0, 3))]]
        if k == 'tuple':
            return ['Tuple', [self.literal(depth - 1) for _ in range(r.randint(0, 3))]]
        if k == 'dict':
            def key(i):
                # keys are evaluated like everything else in argument position: a tuple / frozenset key with a T leaf is rebuilt
                c = r.random()
                if c < 0.7:
                    return ['Str', 'k%d' % i]
                if c < 0.85:
                    return ['Tuple', [['T', 'T', [['[', ['Str', 'b']]]], ['Str', 'k%d' % i]]]
                if c < 0.93:
                    return ['Set', True, [['T', 'T', [['[', ['Str', 'b']]]]]] if i == 0 else ['Set', True, [['Lit', i]]]     # one element: no set order to compare
                return ['T', 'T', [['[', ['Str', 'b']]]] if i == 0 else ['Lit', i]
            return ['Dict', False, [[key(i), self.literal(depth - 1)] for i in range(r.randint(0, 2))]]
        if r.random() < 0.25:
            return ['Set', r.random() < 0.5, []]          # an empty set() / frozenset() literal: still rebuilt per evaluation
        return ['Set', r.random() < 0.5, [r.choice([['Lit', 1], ['Str', 'a'], ['T', 'T', [['[', ['Str', 'b']]]]])]]

    def arg_case(self):
        r = self.r
        lit = self.literal(r.choice([1, 2, 3]))
        k = r.choice(['default', 'call', 'bind', 'fill'])
        if k == 'default':
            return ['Coalesce', [['Str', 'zz']], lit, None, None, None]
        if k == 'call':
            return ['Call', ['Fn', ['id']], [lit]]
        if k == 'bind':
            return ['Tuple', [['Bind', [['k', lit]]], ['T', 'S', [['.', ['Str', 'k']]]]]]
        return ['Fill', lit]


def corpus():
    t = target()
    return [
        {'target': t, 'spec': ['Tuple', [['Fill', T], ['Str', 'a']]]},
        {'target': t, 'spec': ['Fill', ['Pipe', [['Auto', T], ['Str', 'a']]]]},
        {'target': t, 'spec': ['Switch', [[['Fill', T], ['Str', 'a']]], None]},
        {'target': t, 'spec': ['Tuple', [['Match', ['Type', 'dict'], None], ['Str', 'a'], ['Fill', ['Tuple', [['Str', 'a'], T]]], ['Str', '1']]]},
        {'target': t, 'spec': ['Fill', ['Dict', False, [[['Str', 'k'], ['Auto', ['Tuple', [['Str', 'a'], ['Str', 'b']]]]], [['T', 'T', [['[', ['Str', 'b']]]], ['Str', 'a']]]]]},
        {'target': t, 'spec': ['Tuple', [['Str', 'a'], ['Fill', ['List', [['Str', 'b'], ['Auto', ['Str', 'a']]]]], ['T', 'T', [['[', ['Lit', 1]]]]]]},
    ]


def generate(rng, tier):
    g = Gen(rng)
    n = 1200 if tier == 'quick' else 9000
    out = [{'kind': 'cyclic', 'shape': sh, 'site': site} for sh in CYCLE_SHAPES for site in SITES]
    out += [{'kind': 'argleak', 'i': i} for i in range(len(argleak_cases()))]
    for i in range(n):
        if i % 4 == 3:
            out.append({'target': target(), 'spec': g.arg_case()})
        else:
            out.append({'target': target(), 'spec': g.ctx(rng.choice([2, 3, 3]))})
    return out


# ---------- F30: an argument whose evaluation FAILS under a wildcard step (which swallows the failure and goes on in the same
# scope) does not leave the chain in argument mode: the steps after it are evaluated, not taken as literals ----------
def argleak_cases():
    import glom
    T_ = glom.T
    t = {'a': {'k': 'x', 'x': 1}, 'b': {}, 'c': {'k': 'x', 'x': 2}}
    return [
        (t, (T_.__star__()[T_['k']], len), 2),
        (t, (T_.__star__()[T_['k']], 'a'), ('raise', 'PathAccessError')),
        (t, (T_.__star__()[T_['k']], [lambda x: x + 1]), [2, 3]),
        (t, (T_.__starstar__()[T_['k']], len), 2),
        (t, {'n': (T_.__star__()[T_['k']], len), 'm': 'b'}, {'n': 2, 'm': {}}),
        (t, (T_.__star__()[T_['k']], glom.Fill([T_])), None),     # checked for shape below
        ({'a': {'f': abs, 'v': -3}, 'b': {'v': 1}}, (T_.__star__()['f'](T_['v']), sum), 3),
    ] + lazy_cases()


def lazy_cases():
    """a mode wrapper around a LAZY spec (Iter) that is not the last step of its chain: the wrapped spec's sub-specs run when a
    later step consumes the iterator — still in the wrapper's mode, not in the mode of the chain that consumes it"""
    import glom
    from glom import Fill, Auto, Match, Iter, Pipe, T
    rows = [{'a': 1}, {'a': 2}]
    return [
        (rows, (Fill(Iter('a')), list), ['a', 'a']),
        (rows, Pipe(Fill(Iter((T['a'], 'x'))), list), [(1, 'x'), (2, 'x')]),
        (rows, (Fill(Iter('a').map(T)), list), ['a', 'a']),
        (['1', 2], (Match(Iter(int)), list), ('raise', 'TypeMatchError')),
        ([1, 2], (Match(Iter(int)), list), [1, 2]),
        (rows, Fill(Pipe(Auto(Iter('a')), Auto(list))), [1, 2]),
        (rows, Fill((Auto(Iter('a')), T)), None),              # a tuple in Fill mode is a literal: checked for shape below
        (rows, (Fill(Iter('a')), Auto(Iter(T * 2)), list), ['aa', 'aa']),
        (rows, (Iter('a'), list), [1, 2]),
        (rows, Fill(Iter('a').all()), ['a', 'a']),
    ] + first_default_cases()


def first_default_cases():
    """the default of First / Iter().first() is an argument position like every other default: containers are rebuilt, T leaves
    and Spec / Val objects replaced by their values"""
    from glom import T, Fill, Iter, Spec, Val
    from glom.streaming import First
    falsy = [0, 0.0, '']
    return [
        (falsy, First(default=[T, 'x', len]), [[0, 0.0, ''], 'x', len]),
        (falsy, First(default=(T[0], {'k': T[2]})), (0, {'k': ''})),
        (falsy, First(default={'n': Spec(len), 'v': Val('lit')}), {'n': 3, 'v': 'lit'}),
        (falsy, Iter().first(default=[Val('lit'), 'x']), ['lit', 'x']),
        (falsy, Fill(First(default=[T[0], 'x'])), [0, 'x']),
        (falsy, First(default=[]), []),
        ([0, 5, 7], First(default=[T]), 5),
    ]


def run_argleak(case):
    import glom
    t, spec, want = argleak_cases()[case['i']]
    try:
        got = glom.glom(t, spec)
    except glom.GlomError as e:
        got = ('raise', type(e).__name__)
    if want is None and isinstance(got, tuple) and len(got) == 2 and got[1] == t:
        got, want = list(got[0]), [1, 2]                       # Fill((Auto(Iter('a')), T)): (iterator in auto mode, the target)
    if want is None:
        want = [[1, 2]]
    if got != want:
        return {'problems': ['a step run in another mode than its own (after a wildcard step that dropped a child whose argument failed / '
                             'a lazy spec consumed after its mode wrapper returned): glom(%r, %s) gives %s, the steps evaluated '
                             'in their own mode give %r' % (t, _safe_repr(spec), _safe_repr(got), want)]}
    return {}


# ---------- cyclic argument literals (decided on the implementation side: the tree-shaped IR cannot express them) ----------
CYCLE_SHAPES = ['list-self', 'list-list', 'list-tuple', 'list-dict', 'dict-list', 'dict-self', 'dict-dict', 'list-shared']
SITES = ['default', 'call', 'bind', 'assign']


def cyclic_literal(shape):
    import glom
    T_ = glom.T
    if shape == 'list-self':
        l = [T_['n']]
        l.append(l)
        return l
    if shape == 'list-list':
        l = [T_['n']]
        m = [l, 1]
        l.append(m)
        return l
    if shape == 'list-tuple':
        l = [T_['n']]
        l.append((l, 2))
        return l
    if shape == 'list-dict':
        l = [T_['n']]
        l.append({'back': l, 'v': T_['n']})
        return l
    if shape == 'dict-list':
        d = {'v': T_['n']}
        d['l'] = [d, 3]
        return d
    if shape == 'dict-self':
        d = {'v': T_['n']}
        d['me'] = d
        return d
    if shape == 'dict-dict':
        d = {'v': T_['n']}
        d['e'] = {'up': d}
        return d
    shared = [T_['n']]
    return [shared, shared, {'s': shared}]


def expected_shape(lit, n):
    """the literal with T['n'] replaced by n, as a fresh structure of the same (cyclic / shared) shape"""
    import glom
    memo = {}

    def go(x):
        if isinstance(x, glom.core.TType):
            return n
        if id(x) in memo:
            return memo[id(x)]
        if isinstance(x, list):
            r = memo[id(x)] = []
            r.extend(go(y) for y in x)
            return r
        if isinstance(x, dict):
            r = memo[id(x)] = {}
            for k, v in x.items():
                r[k] = go(v)
            return r
        if isinstance(x, tuple):
            return tuple(go(y) for y in x)
        return x
    return go(lit)


def same_shape(a, b, seen=None):
    """isomorphism of two possibly cyclic structures (same types, same sharing)"""
    seen = {} if seen is None else seen
    if isinstance(a, (list, dict)):
        if id(a) in seen:
            return seen[id(a)] is b
        if type(a) is not type(b) or len(a) != len(b):
            return False
        seen[id(a)] = b
        if isinstance(a, list):
            return all(same_shape(x, y, seen) for x, y in zip(a, b))
        return list(a) == list(b) and all(same_shape(a[k], b[k], seen) for k in a)
    if isinstance(a, tuple):
        return isinstance(b, tuple) and len(a) == len(b) and all(same_shape(x, y, seen) for x, y in zip(a, b))
    return type(a) is type(b) and a == b


def run_cyclic(case):
    import glom
    lit = cyclic_literal(case['shape'])
    target = {'n': 7, 'box': {}}
    site = case['site']
    if site == 'default':
        spec = glom.Coalesce('zz', default=lit)
    elif site == 'call':
        spec = glom.Call(lambda x: x, args=(lit,))
    elif site == 'bind':
        spec = (glom.S(k=lit), glom.S.k)
    else:
        spec = (glom.Assign('box.out', lit), 'box.out')
    out = {}
    try:
        res = glom.glom(target, spec)
    except BaseException as e:  # noqa: B036
        return {'problems': ['a %s literal at the %s site: %s' % (case['shape'], site, type(e).__name__)]}
    want = expected_shape(lit, 7)
    if not same_shape(want, res):
        out['problems'] = ['a %s literal at the %s site does not keep its shape: got %s, the literal has the shape of %s'
                           % (case['shape'], site, _safe_repr(res), _safe_repr(want))]
    elif res is lit:
        out['problems'] = ['the literal itself was returned, not a rebuilt copy']
    return out


def _safe_repr(x):
    try:
        return repr(x)[:200]
    except BaseException:  # noqa: B036
        return '<unprintable>'


def run_impl(case):
    if case.get('kind') == 'cyclic':
        return run_cyclic(case)
    if case.get('kind') == 'argleak':
        return run_argleak(case)
    return pyspec.run_glom(case)


def coq_case(case, out):
    if case.get('kind') in ('cyclic', 'argleak'):
        return '(mkI VNone (SRequired SM) [] (Unmodelled "harness") [])'
    return c03.coq_case(case, out)


def model_dump_term(case):
    return '0' if case.get('kind') in ('cyclic', 'argleak') else c03.model_dump_term(case)


python_snippet = c03.python_snippet


def _has_wrapper_with_sibling(ir):
    if isinstance(ir, list) and ir and ir[0] in ('Tuple', 'Pipe') and isinstance(ir[1], list):
        kinds = [x[0] for x in ir[1] if isinstance(x, list) and x]
        if any(k in ('Fill', 'Auto', 'Match') for k in kinds) and len(kinds) >= 2:
            return True
    if isinstance(ir, list):
        return any(_has_wrapper_with_sibling(x) for x in ir if isinstance(x, list))
    return False


def _depth(ir):
    if isinstance(ir, list) and ir and ir[0] in ('List', 'Tuple', 'Dict', 'Set'):
        return 1 + max([_depth(x) for x in ir[1:] if isinstance(x, list)] + [0])
    if isinstance(ir, list):
        return max([_depth(x) for x in ir if isinstance(x, list)] + [0])
    return 0


def nontrivial(case, out):
    if case.get('kind') in ('cyclic', 'argleak'):
        return True
    return _has_wrapper_with_sibling(case['spec']) or _depth(case['spec']) >= 3


def classify(case, out):
    if case.get('kind') == 'argleak':
        return 'argleak:%d' % case['i']
    if case.get('kind') == 'cyclic':
        return 'cyclic:%s:%s' % (case['shape'], case['site'])
    tag = 'raise:%s' % out['raise'] if 'raise' in out else 'ok'
    return '%s:%s' % (case['spec'][0], tag)


def direct_oracle(case, out):
    if out.get('problems'):
        return '; '.join(out['problems'][:2])
    if out.get('spec_leaks'):
        return '%d container(s) of the result are the spec\'s own list / dict / set objects, not rebuilt ones' % out['spec_leaks']
    return None
