"""C08 — modes apply exactly to the wrapped spec; Fill and argument mode keep shape."""
import pyspec
import props.c03 as c03

ID = 'C08'
PROPERTY_FILE = 'Properties/C08'
MODEL_FILES = c03.MODEL_FILES
GENERATED_DEPS = []
COQ_HEADER = c03.COQ_HEADER
CHECK_FN = c03.CHECK_FN
UNMODELLED_FN = c03.UNMODELLED_FN
RULE = ('nestings (depth <= 3) of the mode wrappers Auto / Fill / Match placed at every step position of tuples and Pipes, as dict '
        'values, Coalesce branches and Switch cases, preceded and followed by the four mode-sensitive probes (a string, a tuple, a list, '
        'a dict) and T leaves; argument-position literals (Coalesce default, Call arguments, S(k=...) values) built from nested '
        'dict / list / tuple / set shapes with T leaves, strings and callables. Observed: result (type, shape, identity) or exception '
        'class. Non-trivial: a wrapper followed or preceded by a probe inside the same chain / container, or a literal of depth >= 2.')
ASSUMPTIONS = ['Group as a wrapper is exercised under C16; cyclic argument literals are checked by the direct oracle on the implementation '
               'and by the graph theorem argmode_preserves_cycles (tree-shaped IR cannot express them)']
SHARD = 300

T = ['T', 'T', []]
PROBES = [['Str', 'a'], ['Tuple', [['Str', 'a'], ['Str', 'b']]], ['List', [['Str', 'b']]], ['Dict', False, [[['Str', 'x'], ['Str', 'a']]]],
          ['Str', 'a'], T, ['T', 'T', [['[', ['Str', 'a']]]]]


def target():
    return {'k': 'dict', 'od': False, 'id': 1, 'items': [
        ['a', {'k': 'dict', 'od': False, 'id': 2, 'items': [['b', {'k': 'list', 'id': 3, 'items': [{'k': 'dict', 'od': False, 'id': 4, 'items': [['b', 7]]}]}], ['a', 5]]}],
        ['b', 9]]}


class Gen:
    def __init__(self, rng):
        self.r = rng

    def ctx(self, depth):
        r = self.r
        if depth <= 0 or r.random() < 0.3:
            return r.choice(PROBES)
        k = r.choice(['wrap', 'wrap', 'wrap', 'tuple', 'pipe', 'dict', 'coalesce', 'switch', 'list'])
        if k == 'wrap':
            w = r.choice(['Fill', 'Fill', 'Auto', 'Match'])
            inner = self.ctx(depth - 1)
            return [w, inner] if w != 'Match' else ['Match', inner, None if r.random() < 0.7 else ['Lit', 'no-match']]
        if k in ('tuple', 'pipe'):
            return ['Tuple' if k == 'tuple' else 'Pipe', [self.ctx(depth - 1) for _ in range(r.randint(2, 3))]]
        if k == 'dict':
            return ['Dict', False, [[['Str', 'k%d' % i], self.ctx(depth - 1)] for i in range(r.randint(1, 2))]]
        if k == 'coalesce':
            return ['Coalesce', [self.ctx(depth - 1), self.ctx(depth - 1)], r.choice([None, ['Lit', 'd'], self.literal(2)]), None, None, None]
        if k == 'switch':
            return ['Switch', [[self.ctx(depth - 1), self.ctx(depth - 1)], [T, self.ctx(depth - 1)]], None]
        return ['List', [self.ctx(depth - 1)]]

    def literal(self, depth):
        """an argument-position literal: containers rebuilt, T leaves evaluated, strings and callables literal"""
        r = self.r
        if depth <= 0 or r.random() < 0.3:
            return r.choice([T, ['T', 'T', [['[', ['Str', 'b']]]], ['Str', 'a'], ['Lit', 3], ['Fn', ['len']], ['Lit', None],
                             ['Spec', ['Str', 'b'], []], ['Val', 'v']])
        k = r.choice(['list', 'tuple', 'dict', 'set'])
        if k == 'list':
            return ['List', [self.literal(depth - 1) for _ in range(r.randint(0, 3))]]
        if k == 'tuple':
            return ['Tuple', [self.literal(depth - 1) for _ in range(r.randint(0, 3))]]
        if k == 'dict':
            return ['Dict', False, [[['Str', 'k%d' % i], self.literal(depth - 1)] for i in range(r.randint(0, 2))]]
        return ['Set', r.random() < 0.5, [r.choice([['Lit', 1], ['Str', 'a'], ['T', 'T', [['[', ['Str', 'b']]]]])]]

    def arg_case(self):
        r = self.r
        lit = self.literal(r.choice([1, 2, 3]))
        k = r.choice(['default', 'call', 'bind', 'fill'])
        if k == 'default':
            return ['Coalesce', [['Str', 'zz']], lit, None, None, None]
        if k == 'call':
            return ['Call', ['Fn', ['id']], [lit]]
        if k == 'bind':
            return ['Tuple', [['Bind', [['k', lit]]], ['T', 'S', [['.', ['Str', 'k']]]]]]
        return ['Fill', lit]


def corpus():
    t = target()
    return [
        {'target': t, 'spec': ['Tuple', [['Fill', T], ['Str', 'a']]]},
        {'target': t, 'spec': ['Fill', ['Pipe', [['Auto', T], ['Str', 'a']]]]},
        {'target': t, 'spec': ['Switch', [[['Fill', T], ['Str', 'a']]], None]},
        {'target': t, 'spec': ['Tuple', [['Match', ['Type', 'dict'], None], ['Str', 'a'], ['Fill', ['Tuple', [['Str', 'a'], T]]], ['Str', '1']]]},
        {'target': t, 'spec': ['Fill', ['Dict', False, [[['Str', 'k'], ['Auto', ['Tuple', [['Str', 'a'], ['Str', 'b']]]]], [['T', 'T', [['[', ['Str', 'b']]]], ['Str', 'a']]]]]},
        {'target': t, 'spec': ['Tuple', [['Str', 'a'], ['Fill', ['List', [['Str', 'b'], ['Auto', ['Str', 'a']]]]], ['T', 'T', [['[', ['Lit', 1]]]]]]},
    ]


def generate(rng, tier):
    g = Gen(rng)
    n = 1200 if tier == 'quick' else 9000
    out = []
    for i in range(n):
        if i % 4 == 3:
            out.append({'target': target(), 'spec': g.arg_case()})
        else:
            out.append({'target': target(), 'spec': g.ctx(rng.choice([2, 3, 3]))})
    return out


def run_impl(case):
    return pyspec.run_glom(case)


coq_case = c03.coq_case
model_dump_term = c03.model_dump_term
python_snippet = c03.python_snippet


def _has_wrapper_with_sibling(ir):
    if isinstance(ir, list) and ir and ir[0] in ('Tuple', 'Pipe') and isinstance(ir[1], list):
        kinds = [x[0] for x in ir[1] if isinstance(x, list) and x]
        if any(k in ('Fill', 'Auto', 'Match') for k in kinds) and len(kinds) >= 2:
            return True
    if isinstance(ir, list):
        return any(_has_wrapper_with_sibling(x) for x in ir if isinstance(x, list))
    return False


def _depth(ir):
    if isinstance(ir, list) and ir and ir[0] in ('List', 'Tuple', 'Dict', 'Set'):
        return 1 + max([_depth(x) for x in ir[1:] if isinstance(x, list)] + [0])
    if isinstance(ir, list):
        return max([_depth(x) for x in ir if isinstance(x, list)] + [0])
    return 0


def nontrivial(case, out):
    return _has_wrapper_with_sibling(case['spec']) or _depth(case['spec']) >= 3


def classify(case, out):
    tag = 'raise:%s' % out['raise'] if 'raise' in out else 'ok'
    return '%s:%s' % (case['spec'][0], tag)


def direct_oracle(case, out):
    return None
