"""C09 — Match succeeds exactly on conforming targets and returns them unchanged."""
import copy

import pyspec
import pyval
import props.c03 as c03

ID = 'C09'
PROPERTY_FILE = 'Properties/C09'
MODEL_FILES = c03.MODEL_FILES
GENERATED_DEPS = []
COQ_HEADER = c03.COQ_HEADER
CHECK_FN = 'i_check_perm'   # dict results compared without regard to entry order: Optional defaults are filled in in set order
UNMODELLED_FN = c03.UNMODELLED_FN
RULE = ('patterns of depth <= 4 over {literal, type, list, set/frozenset of literals, tuple, dict with literal / type / Optional(+default) / '
        'Required / M-comparison keys, catalogue Regex, catalogue predicates, And/Or/Not, M comparisons}; for each pattern a conforming '
        'target is DERIVED from it, then either kept, mutated by one edit (a changed leaf, a dropped required key, an extra key, a wrong '
        'container type, a changed length) or replaced by an unrelated value; observed: returned value or exception class '
        '(MatchError / TypeMatchError), Match(default=), and matches()/verify() on the implementation; the target is snapshotted '
        'before/after. Non-trivial: a dict pattern with >= 2 key kinds, or depth >= 2.')
ASSUMPTIONS = ["Python's re is not modelled: three catalogue regexes have Coq predicates cross-checked by the correspondence",
               'plain functions are not used as dict keys (outside the property\'s quantifier)']
SHARD = 300

TYPES = ['int', 'str', 'bool', 'list', 'dict', 'tuple', 'NoneType', 'object']


class Gen:
    def __init__(self, rng):
        self.r = rng
        self.next_id = 1

    def fid(self):
        self.next_id += 1
        return self.next_id

    def leaf(self):
        """(pattern, conforming target)"""
        r = self.r
        k = r.choice(['lit', 'lit', 'type', 'type', 'pred', 'm', 'regex', 'and', 'or', 'not'])
        if k == 'lit':
            v = r.choice([1, 0, 'a', 'xyz', None, True, 7])
            return (['Str', v] if isinstance(v, str) else ['Lit', v]), v
        if k == 'type':
            t = r.choice(['int', 'str', 'bool', 'NoneType', 'object'])
            v = {'int': r.choice([0, 5, -3, True]), 'str': r.choice(['', 'q']), 'bool': r.choice([True, False]),
                 'NoneType': None, 'object': r.choice([1, 'z', None])}[t]
            return ['Type', t], v
        if k == 'pred':
            f = r.choice([['even'], ['gt', 2], ['is_none']])
            v = {'even': 4, 'gt': 9, 'is_none': None}[f[0]]
            return ['Fn', f], v
        if k == 'm':
            op, c, v = r.choice([('>', 3, 5), ('<', 3, 1), ('=', 'a', 'a'), ('!', 2, 3), ('g', 5, 5), ('l', 0, -1)])
            return ['MExpr', ['M'], op, (['Str', c] if isinstance(c, str) else ['Lit', c])], v
        if k == 'regex':
            i = r.choice([0, 1, 3, 4])
            return ['Regex', i], {0: 'aaa', 1: '123', 3: r.choice(['aab', 'a', 'ab ']), 4: r.choice(['xxay', 'a', 'ba'])}[i]
        if k == 'and':
            return ['And', [['Type', 'int'], ['MExpr', ['M'], '>', ['Lit', 0]]], None], 3
        if k == 'or':
            return ['Or', [['Type', 'str'], ['Lit', None]], None], r.choice(['s', None])
        return ['Not', ['Type', 'str']], 5

    def pat(self, depth):
        r = self.r
        if depth <= 0 or r.random() < 0.3:
            return self.leaf()
        k = r.choice(['list', 'tuple', 'dict', 'dict', 'set', 'and', 'or'])
        if k in ('and', 'or'):
            # And / Or over composite patterns: every child of And sees the TARGET (not the previous child's result, which for a
            # dict pattern with Optional defaults is a different dict); the result is the last child's
            sub, t = self.pat(depth - 1)
            kind = {'dict': 'dict', 'list': 'list', 'tuple': 'tuple'}.get(t.get('k') if isinstance(t, dict) else None, 'object')
            other = r.choice([['Type', 'object'], ['Type', kind], copy.deepcopy(sub)])
            if k == 'and':
                kids = [sub, other] if r.random() < 0.7 else [other, sub]
                return ['And', kids, None], t
            return ['Or', [['Type', 'NoneType'], sub] if r.random() < 0.5 else [sub, other], None], t
        if k == 'list':
            alts = [self.pat(depth - 1) for _ in range(r.randint(1, 2))]
            items = [copy.deepcopy(r.choice(alts)[1]) for _ in range(r.randint(0, 3))]
            return ['List', [a[0] for a in alts]], {'k': 'list', 'id': self.fid(), 'items': self.fresh(items)}
        if k == 'tuple':
            subs = [self.pat(depth - 1) for _ in range(r.randint(1, 3))]
            return ['Tuple', [s[0] for s in subs]], {'k': 'tuple', 'id': self.fid(), 'items': [s[1] for s in subs]}
        if k == 'set':
            vals = r.sample([1, 2, 'a', None], r.randint(1, 2))
            fz = r.random() < 0.5
            return ['Set', fz, [(['Str', v] if isinstance(v, str) else ['Lit', v]) for v in vals]], \
                {'k': 'set', 'fz': fz, 'id': self.fid(), 'items': [vals[0]]}
        if r.random() < 0.12:
            # a general key spec LISTED BEFORE an Optional key with a default, and a target that has the optional key: the general
            # key takes the item, the target's value stays, the default is not filled in
            gen = r.choice([['Type', 'str'], ['Type', 'object']])
            key = r.choice(['o1', 'o2'])
            val = r.choice([5, 'present', None, 0])
            es = [[gen, ['Type', 'object']], [['Optional', key, ['Lit', 'dflt']], ['Type', 'object']]]
            if r.random() < 0.3:
                es.reverse()
            items = [[key, val]] if r.random() < 0.8 else []
            if r.random() < 0.5:
                items.append(['zz', 1])
            r.shuffle(items)
            return ['Dict', False, es], {'k': 'dict', 'od': False, 'id': self.fid(), 'items': items}
        es, items = [], []
        used = set()
        for _ in range(r.randint(1, 3)):
            kk = r.choice(['lit', 'lit', 'type', 'optional', 'optional_default', 'required', 'm'])
            vp, vt = self.pat(depth - 1)
            if kk == 'lit':
                key = r.choice(['a', 'b', 'c', 'id'])
                if key in used:
                    continue
                used.add(key)
                es.append([['Str', key], vp])
                items.append([key, vt])
            elif kk == 'type':
                if 'TYPE' in used:
                    continue
                used.add('TYPE')
                es.append([['Type', 'str'], vp])
                if r.random() < 0.6:
                    items.append(['zz%d' % len(items), vt])
            elif kk in ('optional', 'optional_default'):
                key = r.choice(['o1', 'o2'])
                if key in used:
                    continue
                used.add(key)
                d = None if kk == 'optional' else ['Lit', 'dflt']
                es.append([['Optional', key, d], vp])
                if r.random() < 0.5:
                    items.append([key, vt])
            elif kk == 'required':
                if 'REQ' in used:
                    continue
                used.add('REQ')
                es.append([['Required', ['Type', 'int']], vp])
                items.append([r.choice([10, 11]), vt])
            else:
                if 'M' in used:
                    continue
                used.add('M')
                es.append([['MExpr', ['M'], '>', ['Lit', 100]], vp])
                if r.random() < 0.5:
                    items.append([r.choice([101, 200]), vt])
        r.shuffle(items)
        return ['Dict', False, es], {'k': 'dict', 'od': False, 'id': self.fid(), 'items': items}

    def fresh(self, items):
        out = []
        for x in items:
            out.append(self.relabel(x))
        return out

    def relabel(self, v):
        if isinstance(v, dict) and 'k' in v:
            v = dict(v)
            v['id'] = self.fid()
            if 'items' in v:
                v['items'] = [[self.relabel(a), self.relabel(b)] if isinstance(x, list) and v['k'] == 'dict' else self.relabel(x)
                              for x in v['items'] for a, b in ([x] if isinstance(x, list) and v['k'] == 'dict' else [(None, None)])] \
                    if v['k'] == 'dict' else [self.relabel(x) for x in v['items']]
        return v

    def mutate(self, t):
        r = self.r
        if isinstance(t, dict) and 'k' in t:
            k = t['k']
            c = r.random()
            if c < 0.25:
                return r.choice([5, 'str', None, {'k': 'list', 'id': self.fid(), 'items': []}])
            t = copy.deepcopy(t)
            if k == 'dict':
                if t['items'] and c < 0.5:
                    del t['items'][r.randrange(len(t['items']))]
                elif c < 0.7:
                    t['items'].append([r.choice(['extra', 999, None]), 1])
                elif t['items']:
                    i = r.randrange(len(t['items']))
                    t['items'][i][1] = self.mutate(t['items'][i][1])
                return t
            if k in ('list', 'tuple', 'set'):
                if t['items'] and c < 0.6:
                    i = r.randrange(len(t['items']))
                    t['items'][i] = self.mutate(t['items'][i])
                elif c < 0.8 and k != 'set':
                    t['items'].append(r.choice([object_marker(), 'bad', -1]))
                elif t['items']:
                    t['items'].pop()
                return t
        if isinstance(t, str) and t and r.random() < 0.5:
            # near misses of strings: a conforming string with something in front of or behind it (full match, not prefix / search)
            return r.choice([t + 'x', t + ' ', 'x' + t, t + t[-1] + '!', t[:-1]])
        return r.choice([x for x in [0, 1, -7, 'a', 'zzz', None, True, 12345] if x != t or type(x) is not type(t)])


def object_marker():
    return 'MARK'


E = {'k': 'dict', 'od': False, 'id': 1, 'items': []}
MIXED = ['Dict', False, [[['Str', 'id'], ['Type', 'int']], [['Lit', 1], ['Type', 'str']], [['Lit', None], ['Type', 'object']]]]


def FZ(*items):
    return {'k': 'set', 'fz': True, 'id': 0, 'items': list(items)}


def corpus():
    t = {'k': 'dict', 'od': False, 'id': 1, 'items': [['id', 1], ['name', 'alice']]}
    return [
        {'target': t, 'spec': ['Match', ['Dict', False, [[['Str', 'id'], ['Type', 'int']], [['Str', 'name'], ['Type', 'str']]]], None]},
        {'target': t, 'spec': ['Match', ['Dict', False, [[['Str', 'id'], ['Type', 'int']]]], None]},
        {'target': t, 'spec': ['Match', ['Dict', False, [[['Type', 'str'], ['Type', 'object']], [['Optional', 'x', ['Lit', 'd']], ['Type', 'int']]]], None]},
        {'target': 1, 'spec': ['Match', ['Fn', ['gt', 5]], None]},
        {'target': 1, 'spec': ['Match', ['Type', 'str'], None]},
        {'target': 1, 'spec': ['Match', ['Type', 'str'], ['Lit', 'dflt']]},
        {'target': {'k': 'list', 'id': 1, 'items': [1, 'a', None]}, 'spec': ['Match', ['List', [['Type', 'int'], ['Type', 'str']]], None]},
        {'target': {'k': 'dict', 'od': False, 'id': 1, 'items': []}, 'spec': ['Match', ['Dict', False, [[['Required', ['Type', 'object']], ['Type', 'object']]]], None]},
        # several required keys of different types missing at once (str next to int, None): still a MatchError, caught by default=,
        # Or, Not and the per-item alternatives of a list pattern
        {'target': E, 'spec': ['Match', MIXED, None]},
        {'target': E, 'spec': ['Match', MIXED, ['Lit', 'dflt']]},
        {'target': E, 'spec': ['Match', ['Or', [MIXED, ['Dict', False, []]], None], None]},
        {'target': E, 'spec': ['Match', ['Not', MIXED], None]},
        {'target': {'k': 'list', 'id': 1, 'items': [{'k': 'dict', 'od': False, 'id': 2, 'items': [['k', 2]]}, {'k': 'dict', 'od': False, 'id': 3, 'items': []}]},
         'spec': ['Match', ['List', [MIXED, ['Dict', False, [[['Type', 'str'], ['Type', 'int']]]]]], None]},
        {'target': {'k': 'dict', 'od': False, 'id': 1, 'items': [['id', 1]]}, 'spec': ['Match', MIXED, None]},
        # an Optional key is an EQUALITY key whatever its constant is: a frozenset constant is compared with ==, not matched element-wise
        {'target': {'k': 'dict', 'od': False, 'id': 1, 'items': [['name', 'x'], [FZ('r'), 'yes']]},
         'spec': ['Match', ['Dict', False, [[['Str', 'name'], ['Type', 'str']], [['Optional', FZ('r', 'w'), ['Lit', 'none']], ['Type', 'str']]]], None]},
        {'target': {'k': 'dict', 'od': False, 'id': 1, 'items': [[FZ(), 1]]},
         'spec': ['Match', ['Dict', False, [[['Optional', FZ('r', 'w'), None], ['Type', 'int']]]], None]},
        {'target': {'k': 'dict', 'od': False, 'id': 1, 'items': [[FZ(), 1]]},
         'spec': ['Match', ['Dict', False, [[['Optional', FZ('r', 'w'), None], ['Type', 'int']]]], ['Lit', 'dflt']]},
        {'target': {'k': 'dict', 'od': False, 'id': 1, 'items': [[FZ('r', 'w'), 1]]},
         'spec': ['Match', ['Dict', False, [[['Optional', FZ('r', 'w'), None], ['Type', 'int']]]], None]},
        {'target': {'k': 'dict', 'od': False, 'id': 1, 'items': [['id', 1], [{'k': 'tuple', 'id': 0, 'items': ['acl', FZ('w')]}, 7]]},
         'spec': ['Match', ['Dict', False, [[['Optional', {'k': 'tuple', 'id': 0, 'items': ['acl', FZ('r', 'w')]}, None], ['Type', 'int']], [['Str', 'id'], ['Type', 'int']]]], None]},
    ]


def generate(rng, tier):
    n = 1500 if tier == 'quick' else 12000
    out = []
    for _ in range(n):
        g = Gen(rng)
        p, t = g.pat(rng.choice([1, 2, 3, 3]))
        c = rng.random()
        if c < 0.45:
            target = t
        elif c < 0.85:
            target = g.mutate(t)
        else:
            target = rng.choice([None, 3, 'x', {'k': 'list', 'id': 900, 'items': [1]}, {'k': 'dict', 'od': False, 'id': 901, 'items': [['a', 1]]}])
        default = ['Lit', 'no-match'] if rng.random() < 0.1 else None
        out.append({'target': target, 'spec': ['Match', p, default]})
    return out


def run_impl(case):
    import glom
    out = pyspec.run_glom(case)
    r = pyval.Realiser()
    target = r.build(case['target'])
    spec = pyspec.build(case['spec'], r)
    snap = repr(r.encode(target))
    try:
        m = spec.matches(target)
        try:
            spec.verify(target)
            v = True
        except glom.GlomError:
            v = False
        out['matches'] = m
        out['verify_ok'] = v
    except Exception as e:
        out['matches_error'] = type(e).__name__
    out['target_untouched'] = repr(r.encode(target)) == snap
    # the same target with every tuple replaced by an instance of a tuple SUBCLASS (a namedtuple-like row): conforms exactly when
    # the plain one does, and the result is the same value (defaults of nested dict patterns included)
    if _has_tuple(target):
        r2 = pyval.Realiser()
        t2 = _rows(r2.build(case['target']))
        spec2 = pyspec.build(case['spec'], r2)
        try:
            o2 = ('ok', _plain(glom.glom(t2, spec2)))
        except Exception as e:
            o2 = ('raise', pyval.exc_outcome(e)['raise'])
        try:
            o1 = ('ok', _plain(glom.glom(r2.build(case['target']), pyspec.build(case['spec'], r2))))
        except Exception as e:
            o1 = ('raise', pyval.exc_outcome(e)['raise'])
        if o1 != o2:
            out['row_variant'] = 'plain tuples give %r, tuple-subclass rows give %r' % (o1, o2)
    return out


class Row(tuple):
    __slots__ = ()


def _has_tuple(x):
    if isinstance(x, tuple):
        return True
    if isinstance(x, dict):
        return any(_has_tuple(v) for v in x.values())
    if isinstance(x, list):
        return any(_has_tuple(v) for v in x)
    return False


def _rows(x):
    if isinstance(x, tuple):
        return Row(_rows(v) for v in x)
    if type(x) is dict:
        return {k: _rows(v) for k, v in x.items()}
    if type(x) is list:
        return [_rows(v) for v in x]
    return x


def _plain(x):
    if isinstance(x, tuple):
        return tuple(_plain(v) for v in x)
    if type(x) is dict:
        return {k: _plain(v) for k, v in x.items()}
    if type(x) is list:
        return [_plain(v) for v in x]
    return x


coq_case = c03.coq_case
model_dump_term = c03.model_dump_term
python_snippet = c03.python_snippet


def direct_oracle(case, out):
    if 'matches' in out:
        ok = 'ok' in out
        if case['spec'][2] is None and (out['matches'] != ok or out['verify_ok'] != ok):
            return 'matches()/verify() disagree with glom(target, Match(p)): %r' % out
        if out['matches'] != out['verify_ok']:
            return 'matches() and verify() disagree'
    if out.get('target_untouched') is False:
        return 'the target was modified by Match'
    if out.get('row_variant'):
        return out['row_variant']
    if 'raise' in out and out['raise'] not in ('MatchError', 'TypeMatchError') and 'GlomError' in out.get('isa', []):
        return 'rejection is not a MatchError: %s' % out['raise']
    if out.get('raise') == 'TypeMatchError' and 'TypeError' not in out.get('isa', []):
        return 'TypeMatchError is not a TypeError'
    return None


def _depth(ir):
    if isinstance(ir, list) and ir and ir[0] in ('List', 'Tuple', 'Dict', 'Set'):
        return 1 + max([_depth(x) for x in ir[1:] if isinstance(x, list)] + [0])
    if isinstance(ir, list):
        return max([_depth(x) for x in ir if isinstance(x, list)] + [0])
    return 0


def nontrivial(case, out):
    return _depth(case['spec']) >= 2


def classify(case, out):
    return '%s:%s' % (case['spec'][1][0], out.get('raise', 'ok'))
