"""C10 — M, And, Or, Not, Switch and Check decide like the boolean expressions denoted."""
import itertools

import pyspec
import props.c03 as c03

ID = 'C10'
PROPERTY_FILE = 'Properties/C10'
MODEL_FILES = c03.MODEL_FILES
GENERATED_DEPS = []
COQ_HEADER = c03.COQ_HEADER
CHECK_FN = c03.CHECK_FN
UNMODELLED_FN = c03.UNMODELLED_FN
RULE = ('combinator trees of depth <= 4 over the atoms {M op c, M(T-expr) op c, M, type, literal, logging predicate, failing T access}, '
        'built with constructors and (where Python allows) with the & | ~ operators, with and without default=; Switch over such '
        'keys with logging value specs; all Check keyword subsets {type, one_of, validate, instance_of, default, spec}; every tree is '
        'run on a target set covering every truth assignment of its atoms (targets enumerated from the atoms\' thresholds: ints around '
        'each constant, a string, None, a dict with and without the accessed key); observed: result, exception class, and the probe '
        'log (which children ran). Non-trivial: >= 2 combinators or a default.')
ASSUMPTIONS = ['ordering comparisons are modelled on ints / bools / strings; other operand types are Unmodelled (not counted)',
               'values that are not equal to themselves (NaN, Decimal NaN, a NULL-like object) are outside the value model: selfcmp cases decide M == c / M != c on the same object, and all six comparisons on partially ordered pairs (NaN, sets), against Python\'s own operators, on the implementation side']
SHARD = 300

TARGETS = [0, 1, 3, 5, 6, 10, -2, 'a', '', None, True,
           {'k': 'dict', 'od': False, 'id': 1, 'items': [['n', 7]]}, {'k': 'dict', 'od': False, 'id': 2, 'items': [['n', 2]]},
           {'k': 'dict', 'od': False, 'id': 3, 'items': []}, {'k': 'dict', 'od': False, 'id': 4, 'items': [['n', 2], ['m', 5]]},
           {'k': 'dict', 'od': False, 'id': 5, 'items': [['n', 6], ['m', 6]]},
           {'k': 'dict', 'od': False, 'id': 6, 'items': [['n', 0], ['m', '']]}]       # falsy values behind M(T[..])


class Gen:
    def __init__(self, rng):
        self.r = rng
        self.probe = 0

    def atom(self):
        r = self.r
        k = r.choice(['m', 'm', 'msub', 'msides', 'mtruth', 'type', 'lit', 'pred', 'tfail'])
        if k == 'm':
            return ['MExpr', ['M'], r.choice(['>', '<', '=', '!', 'g', 'l']), ['Lit', r.choice([0, 3, 5])]]
        if k == 'msub':
            return ['MExpr', ['MSub', ['T', 'T', [['[', ['Str', 'n']]]]], r.choice(['>', '<', '=', '!', 'g', 'l']), ['Lit', 5]]
        if k == 'msides':
            # both sides computed: M(T[..]) against M(T[..]), M against M(T[..]) and the other way round
            n, m = ['MSub', ['T', 'T', [['[', ['Str', 'n']]]]], ['MSub', ['T', 'T', [['[', ['Str', 'm']]]]]
            lhs, rhs = r.choice([(n, m), (m, n), (n, n), (['M'], n), (n, ['M']), (['M'], ['M'])])
            return ['MExpr', lhs, r.choice(['>', '<', '=', '!', 'g', 'l']), rhs]
        if k == 'mtruth':
            # bare M: the target is truthy; M(T[..]) on its own: what the sub-spec reaches is truthy (the target passes on)
            return ['M'] if r.random() < 0.5 else ['MSub', ['T', 'T', [['[', ['Str', r.choice(['n', 'm'])]]]]]
        if k == 'type':
            return ['Match', ['Type', r.choice(['int', 'str', 'dict', 'NoneType'])], None]
        if k == 'lit':
            return ['Match', ['Lit', r.choice([1, 5, None])], None]
        if k == 'pred':
            self.probe += 1
            return ['Tuple', [['Fn', ['probe', self.probe]], ['Match', ['Fn', r.choice([['even'], ['gt', 4]])], None]]]
        return ['T', 'T', [['[', ['Str', 'n']]]]

    def tree(self, depth):
        r = self.r
        if depth <= 0 or r.random() < 0.3:
            return self.atom()
        k = r.choice(['and', 'or', 'not', 'and', 'or', 'switch'])
        style = r.choice(['ctor', 'op'])
        default = None if r.random() < 0.75 else ['Lit', 'dflt']
        if default is not None and r.random() < 0.5:
            # a default is evaluated like any argument: containers are rebuilt, T leaves replaced by their values
            tn = ['T', 'T', [['[', ['Str', 'n']]]]
            default = r.choice([['List', [tn]], ['Tuple', [tn, ['Lit', 0]]], ['Dict', False, [[['Str', 'v'], tn]]], ['List', []],
                                ['Dict', False, []], ['T', 'T', []], ['List', [['T', 'T', []], ['Lit', 1]]]])
        if k in ('and', 'or'):
            kids = [self.tree(depth - 1) for _ in range(r.randint(2, 3))]
            return ['And' if k == 'and' else 'Or', kids, default, style]
        if k == 'not':
            if r.random() < 0.3:
                # ~~x is Not(Not(x)): it yields the TARGET where x passes (whatever x itself yields) and rejects with its own
                # MatchError where x fails (whatever x fails with)
                first = ['MExpr', ['M'], r.choice(['>', '<', '!', 'g']), ['Lit', r.choice([0, 3, 5])]]
                last = r.choice([['Val', 'yielded'], ['T', 'T', [['[', ['Str', 'n']]]], ['Val', 7], self.atom()])
                inner = [r.choice(['And', 'Or']), [first, last], None, 'op'] if r.random() < 0.8 else ['Or', [first], ['Lit', 'dflt'], 'ctor']
                return ['Not', ['Not', inner, 'op'], 'op']
            return ['Not', self.tree(depth - 1), style]
        cases = []
        for _ in range(r.randint(1, 3)):
            self.probe += 1
            val = ['Tuple', [['Fn', ['probe', self.probe]], ['Val', 'case%d' % self.probe]]]
            if r.random() < 0.25:
                # the value spec of the matched case fails: the error must propagate, default or not, and no later case is tried
                val = ['Tuple', [['Fn', ['probe', self.probe]], r.choice([['Str', 'zz__missing'], ['Fn', ['raise', 'ValueError']],
                                                                         ['Match', ['Lit', 'never-equal'], None]])]]
            cases.append([self.tree(depth - 1), val])
        return ['Switch', cases, default]

    def check(self):
        r = self.r
        sub = None if r.random() < 0.6 else ['T', 'T', [['[', ['Str', 'n']]]]
        types = r.choice([[], [], ['int'], ['int', 'str'], ['dict']])
        vals = r.choice([[], [], [1, 5], [None, 'a'], [7], [0, 3], ['', 0]])
        validators = r.choice([[], [], [['even']], [['gt', 4]], [['even'], ['gt', 4]], [['raise', 'ValueError']],
                               [['const', 0]], [['id']], [['is_none'], ['const', 0]], [['inc']]])     # falsy results that are not False pass
        inst = r.choice([[], [], ['int'], ['object'], ['str', 'dict']])
        default = None if r.random() < 0.6 else ['Lit', 'dflt']
        if default is not None and r.random() < 0.5:
            # evaluated like any argument on every path that uses it (type, one_of, validator, instance_of)
            tn = ['T', 'T', []]
            default = r.choice([['List', [tn]], ['Tuple', [tn, ['Lit', 0]]], ['Dict', False, [[['Str', 'v'], tn]]], ['List', []], tn,
                                ['Val', 'val-default']])
        return ['Check', sub, types, vals, validators, inst, default]


def strip_style(ir):
    return ir


def ST(*items):
    return {'k': 'set', 'fz': False, 'id': 0, 'items': list(items)}


def corpus():
    return [
        {'target': 1, 'spec': ['Not', ['Match', ['Type', 'int'], None], 'ctor']},
        {'target': 8, 'spec': ['Not', ['Not', ['And', [['MExpr', ['M'], '>', ['Lit', 7]], ['Val', 7]], None, 'op'], 'op'], 'op']},
        {'target': 1, 'spec': ['Not', ['Not', ['Or', [['MExpr', ['M'], '>', ['Lit', 5]], ['Val', 'low']], None, 'op'], 'op'], 'op']},
        {'target': {'k': 'dict', 'od': False, 'id': 3, 'items': []}, 'spec': ['Not', ['Not', ['And', [['MExpr', ['M'], '!', ['Lit', 0]], ['T', 'T', [['[', ['Str', 'n']]]]], None, 'op'], 'op'], 'op']},
        {'target': 1, 'spec': ['And', [['And', [['MExpr', ['M'], '>', ['Lit', 5]]], ['Lit', 7], 'ctor'], ['Match', ['Type', 'int'], None]], None, 'op']},
        {'target': 6, 'spec': ['Or', [['MExpr', ['M'], '>', ['Lit', 5]], ['Tuple', [['Fn', ['probe', 1]], ['M']]]], None, 'op']},
        {'target': 0, 'spec': ['Or', [['M'], ['Val', None]], None, 'op']},
        {'target': 3, 'spec': ['Switch', [[['MExpr', ['M'], '>', ['Lit', 5]], ['Val', 'big']], [['M'], ['Val', 'small']]], None]},
        # a key passes and ITS value spec fails: that error is the outcome, default or not, and no later case is consulted
        {'target': 10, 'spec': ['Switch', [[['MExpr', ['M'], '>', ['Lit', 5]], ['Str', 'zz__missing']], [['Match', ['Type', 'int'], None], ['Val', 'later']]], ['Lit', 'dflt']]},
        {'target': 10, 'spec': ['Switch', [[['MExpr', ['M'], '>', ['Lit', 5]], ['Match', ['Lit', 'never-equal'], None]]], ['Lit', 'dflt']]},
        {'target': 10, 'spec': ['Switch', [[['MExpr', ['M'], '<', ['Lit', 5]], ['Val', 'small']], [['Match', ['Type', 'int'], None], ['Fn', ['raise', 'ValueError']]]], ['Lit', 'dflt']]},
        {'target': 'a', 'spec': ['Switch', [[['MExpr', ['M'], '>', ['Lit', 5]], ['Str', 'zz__missing']]], ['Lit', 'dflt']]},
        {'target': 10, 'spec': ['Or', [['Switch', [[['MExpr', ['M'], '>', ['Lit', 5]], ['Str', 'zz__missing']]], ['Lit', 'dflt']], ['Val', 'or-branch']], None, 'ctor']},
        {'target': 'a', 'spec': ['MExpr', ['M'], '>', ['Lit', 5]]},
        # comparisons of sets are inclusion tests (a partial order): decided by the model's py_lt / py_le
        {'target': ST(1, 2), 'spec': ['MExpr', ['M'], 'g', ['Lit', ST(3)]]},
        {'target': ST(1, 2), 'spec': ['MExpr', ['M'], 'l', ['Lit', ST(2, 3)]]},
        {'target': ST(1, 2), 'spec': ['MExpr', ['M'], '<', ['Lit', ST(3)]]},
        {'target': ST(1, 2), 'spec': ['MExpr', ['M'], 'g', ['Lit', ST(1)]]},
        {'target': ST(1), 'spec': ['MExpr', ['M'], '<', ['Lit', ST(1, 2)]]},
        {'target': ST(1, 2), 'spec': ['MExpr', ['M'], 'l', ['Lit', ST(1, 2)]]},
        {'target': ST(1, 2), 'spec': ['MExpr', ['M'], '>', ['Lit', ST(1, 2)]]},
        {'target': ST(1, 2), 'spec': ['Not', ['MExpr', ['M'], 'g', ['Lit', ST(3)]], 'op']},
        {'target': ST(1, 2), 'spec': ['Switch', [[['MExpr', ['M'], 'g', ['Lit', ST(3)]], ['Val', 'superset']], [['M'], ['Val', 'other']]], None]},
        {'target': ST(1, 2), 'spec': ['And', [['MExpr', ['M'], 'g', ['Lit', ST(3)]], ['MExpr', ['M'], 'l', ['Lit', ST(3)]]], ['Lit', 'dflt'], 'op']},
        # ~ on an == / != comparison whose M(T[..]) operand cannot be read: the comparison fails (not a pass), so its negation
        # passes and yields the target — ~(M == c) is not "M != c"
        {'target': {'k': 'dict', 'od': False, 'id': 3, 'items': []}, 'spec': ['Not', ['MExpr', ['MSub', ['T', 'T', [['[', ['Str', 'n']]]]], '=', ['Lit', 1]], 'op']},
        {'target': {'k': 'dict', 'od': False, 'id': 3, 'items': []}, 'spec': ['Not', ['MExpr', ['MSub', ['T', 'T', [['[', ['Str', 'n']]]]], '!', ['Lit', 1]], 'op']},
        {'target': {'k': 'dict', 'od': False, 'id': 3, 'items': []}, 'spec': ['Not', ['MExpr', ['M'], '=', ['MSub', ['T', 'T', [['[', ['Str', 'n']]]]]], 'op']},
        {'target': 0, 'spec': ['Or', [['Not', ['MExpr', ['MSub', ['T', 'T', [['.', ['Str', 'n']]]]], '=', ['Lit', 1]], 'op'], ['M']], None, 'ctor']},
        {'target': {'k': 'dict', 'od': False, 'id': 3, 'items': []}, 'spec': ['And', [['Not', ['MExpr', ['MSub', ['T', 'T', [['[', ['Str', 'n']]]]], '=', ['Lit', 1]], 'op'], ['Match', ['Type', 'dict'], None]], None, 'op']},
        {'target': 4, 'spec': ['Check', None, ['int'], [], [['even']], [], None]},
        {'target': 5, 'spec': ['Check', None, [], [], [['even']], [], ['Lit', 'dflt']]},
        # one_of ALONE (no type, instance_of or validate): membership is the whole condition, falsy members included
        {'target': 0, 'spec': ['Check', None, [], [0, 1, 3], [], [], None]},
        {'target': '', 'spec': ['Check', None, [], ['', 'a'], [], [], None]},
        {'target': None, 'spec': ['Check', None, [], [None, 1], [], [], ['Lit', 'dflt']]},
        {'target': {'k': 'dict', 'od': False, 'id': 6, 'items': [['n', 0], ['m', '']]}, 'spec': ['Check', ['T', 'T', [['[', ['Str', 'n']]]], [], [0, 5], [], [], None]},
        {'target': 0, 'spec': ['Check', None, [], [0], [], [], None]},
    ]


def generate(rng, tier):
    n = 120 if tier == 'quick' else 900
    out = [{'kind': 'selfcmp', 'i': i} for i in range(len(selfcmp_cases()))]
    for _ in range(n):
        g = Gen(rng)
        tree = g.tree(rng.choice([1, 2, 3, 3]))
        for t in TARGETS:
            out.append({'target': t, 'spec': tree})
    for _ in range(n // 2):
        g = Gen(rng)
        chk = g.check()
        for t in TARGETS:
            out.append({'target': t, 'spec': chk})
    return out


class NullLike:
    """SQL-NULL-like: equal to nothing, itself included"""
    def __eq__(self, other):
        return False

    def __ne__(self, other):
        return True

    __hash__ = object.__hash__


def selfcmp_cases():
    """M == c / M != c decide like Python's == / != on the two operands — also when both are the SAME object and that object is not
    equal to itself (NaN, a NULL-like value): no identity shortcut"""
    import decimal
    import operator
    from glom import M, T, Switch, Or, And, Val
    out = []
    for name, x in (('nan', float('nan')), ('decimal-nan', decimal.Decimal('NaN')), ('null-like', NullLike()), ('one', 1.0), ('list', [1])):
        for opname, op in (('==', operator.eq), ('!=', operator.ne)):
            out.append(('M %s %s (same object)' % (opname, name), x, op(M, x), op(x, x)))
            out.append(('M(T[x]) %s %s (same object)' % (opname, name), {'x': x}, op(M(T['x']), x), op(x, x)))
            out.append(('M %s M on %s' % (opname, name), x, op(M, M), op(x, x)))
            out.append(('And(M %s %s, M %s %s)' % (opname, name, opname, name), x, And(op(M, x), op(M, x)), op(x, x)))
        out.append(('Switch on %s' % name, x, Switch([(M == x, Val('equal')), (M != x, Val('not equal'))]), 'equal' if x == x else 'not equal'))
    # PARTIAL orders: pairs for which neither <= nor >= holds (NaN against a number, sets none of which contains the other): each of
    # the six comparisons decides like Python's own operator on the pair — a >= is not "not <"
    nan = float('nan')
    pairs = [('nan vs 0', nan, 0), ('5.0 vs nan', 5.0, nan), ('{1,2} vs {3}', {1, 2}, {3}), ('{1,2} vs {2,3}', {1, 2}, {2, 3}),
             ('frozenset vs frozenset', frozenset('ab'), frozenset('bc')), ('{1} vs {1,2}', {1}, {1, 2}), ('{1,2} vs {1,2}', {1, 2}, {1, 2}), ('2 vs 3', 2, 3)]
    for name, a, b in pairs:
        for opname, op in (('==', operator.eq), ('!=', operator.ne), ('<', operator.lt), ('<=', operator.le), ('>', operator.gt), ('>=', operator.ge)):
            out.append(('M %s c on %s' % (opname, name), a, op(M, b), op(a, b)))
            out.append(('M(T[v]) %s c on %s' % (opname, name), {'v': a}, op(M(T['v']), b), op(a, b)))
        out.append(('~(M >= c) on %s' % name, a, ~(M >= b), not (a >= b)))
        out.append(('(M >= c) & (M <= c) on %s' % name, a, (M >= b) & (M <= b), (a >= b) and (a <= b)))
        out.append(('Switch by >= on %s' % name, a, Switch([(M >= b, Val('ge')), (M, Val('other'))], default=Val('other')), 'ge' if a >= b else 'other'))
    return out


def run_selfcmp(case):
    import glom
    name, target, spec, want = selfcmp_cases()[case['i']]
    try:
        res = glom.glom(target, spec)
        got = res if isinstance(want, str) else True
    except glom.MatchError:
        got = False
    except Exception as e:
        got = 'raised %s' % type(e).__name__
    if got != want:
        return {'problems': ['%s: Python decides %r, glom %r' % (name, want, got)]}
    return {}


def run_impl(case):
    if case.get('kind') == 'selfcmp':
        return run_selfcmp(case)
    return pyspec.run_glom(case)


def coq_case(case, out):
    if case.get('kind') == 'selfcmp':
        return '(mkI VNone (SRequired SM) [] (Unmodelled "harness") [])'
    return c03.coq_case(case, out)


def model_dump_term(case):
    return '0' if case.get('kind') == 'selfcmp' else c03.model_dump_term(case)


python_snippet = c03.python_snippet


def direct_oracle(case, out):
    if case.get('kind') == 'selfcmp':
        return '; '.join(out['problems']) if out.get('problems') else None
    if 'ok' in out and "'opaque': 'TType'" in repr(out['ok']) or 'ok' in out and "'opaque': 'Val'" in repr(out['ok']):
        return 'the result contains an unevaluated spec object (a default that was not evaluated as an argument): %r' % (out['ok'],)
    if 'raise' in out and case['spec'][0] in ('And', 'Or', 'Not', 'Switch', 'MExpr', 'M'):
        planted = "'raise', '%s'" % out['raise'] in repr(case['spec'])      # a value spec's own callable raised it: not a rejection
        if 'GlomError' in out.get('isa', []) and out['raise'] not in ('MatchError', 'TypeMatchError', 'PathAccessError') and not planted:
            return 'combinator rejection is %s, not a MatchError' % out['raise']
    return None


def _count(ir):
    if isinstance(ir, list) and ir and isinstance(ir[0], str):
        return (1 if ir[0] in ('And', 'Or', 'Not', 'Switch') else 0) + sum(_count(x) for x in ir[1:] if isinstance(x, list))
    if isinstance(ir, list):
        return sum(_count(x) for x in ir if isinstance(x, list))
    return 0


def nontrivial(case, out):
    if case.get('kind') == 'selfcmp':
        return True
    return _count(case['spec']) >= 2 or case['spec'][0] == 'Check'


def classify(case, out):
    if case.get('kind') == 'selfcmp':
        return 'selfcmp'
    return '%s:%s' % (case['spec'][0], out.get('raise', 'ok'))
