"""C11 — assign obeys the lens laws and fails atomically."""
import copy

from lib import cstr, cnat, cbool, clist
from pyheap import HeapGen, HeapRealiser, heap_coq, gval_coq, atom_coq, cell_coq
from pyval import exc_outcome, cls_of

ID = 'C11'
PROPERTY_FILE = 'Properties/C11'
MODEL_FILES = ['Base/Heap', 'Model/Wild', 'Model/Mutate', 'Corr/Mutate']
GENERATED_DEPS = []
COQ_HEADER = ('From Coq Require Import String ZArith List.\nImport ListNotations.\n'
              'From Glom Require Import Base.PyVal Base.Heap Model.Wild Model.Mutate Corr.Mutate.\nLocal Open Scope string_scope.\n')
CHECK_FN = 'm_check'
UNMODELLED_FN = 'm_unmodelled'
RULE = ('object graphs of 1-7 containers (dict, OrderedDict, list, tuple, attribute objects incl. a class whose __setattr__ raises), '
        'shared and cyclic; destination paths of 1-4 segments obtained by walking the target, whose prefix stops existing at a random '
        'segment (35%), spelled with plain segments (string path / Path) and with T[...] / T.attr steps, with wildcards (*, **) in the '
        'parent (15%); values: literals, existing objects, T-expressions evaluated on the target; missing in {None, dict, list, object '
        'factory, raising factory}. Observed: exception class or the final state of every original cell (objects created during the '
        'run inlined) and the number of factory calls; returned object identity and plain-Python assignment on a copy are compared on '
        'the implementation side. Non-trivial: path length >= 2, or a failure, or missing= creating >= 1 segment.')
ASSUMPTIONS = ['S-rooted destinations are exercised on the implementation side only (every generated assignment is repeated through S.v / S[\'v\'] holding the target and must have the same effect; fixed sroot:* scenarios for a scope name that is itself absent); list / dict literal values (copied by argument mode) are not generated',
               'raising __setitem__ containers are not generated (raising __setattr__ objects, tuples and scalars cover the fault classes)']
SHARD = 300


def class_factory(c):
    if c == 2:
        name = 'SetattrRaises'
        if name not in _CLS:
            def __setattr__(self, k, v):
                raise RuntimeError('no setattr')
            _CLS[name] = type(name, (object,), {'__setattr__': __setattr__})
        return _CLS[name]
    if c == 3:
        name = 'DelattrRaises'
        if name not in _CLS:
            def __delattr__(self, k):
                raise RuntimeError('no delattr')
            _CLS[name] = type(name, (object,), {'__delattr__': __delattr__})
        return _CLS[name]
    return cls_of(c)


_CLS = {}


def walk(rng, cells, target, nseg, styles, break_prob):
    """a path following the graph from target; returns list of [kind, arg]"""
    path = []
    cur = target
    for i in range(nseg):
        valid = None
        if isinstance(cur, dict):
            c = cells[cur['ref']]
            if c['k'] == 'dict' and c['items']:
                k, v = rng.choice(c['items'])
                valid = ('key', k, v)
            elif c['k'] in ('list', 'tuple') and c['items']:
                j = rng.randrange(len(c['items']))
                valid = ('idx', j, c['items'][j])
            elif c['k'] == 'obj' and c['attrs']:
                a, v = rng.choice(c['attrs'])
                valid = ('attr', a, v)
        last = i == nseg - 1
        if valid is None or rng.random() < break_prob:
            kind = rng.choice(styles)
            arg = rng.choice(['new', 'zz', 'a', 5, 0, -1, 'k9'])
            if isinstance(cur, dict) and cells[cur['ref']]['k'] in ('list', 'tuple') and rng.random() < 0.6:
                # positions just outside a sequence of length n, on both sides: n, n+1, -n-1, -n-2, -2n, -2n-1, as int or text
                n = len(cells[cur['ref']]['items'])
                arg = rng.choice([n, n + 1, -n - 1, -n - 2, -2 * n, -2 * n - 1, -n - 1])
                if kind == 'P' and rng.random() < 0.6:
                    arg = str(arg)
            if kind == '.':
                arg = rng.choice(['q', 'a', 'z'])
            path.append([kind, arg])
            cur = None
        else:
            what, arg, nxt = valid
            kind = rng.choice(styles)
            if kind == '.' and what != 'attr':
                kind = 'P'
            if kind == '[' and what == 'attr':
                kind = rng.choice(['P', '.'])
            if what == 'idx' and rng.random() < 0.3:
                arg = arg - len(cells[cur['ref']]['items'])      # the same element counted from the end
            if what == 'idx' and kind == 'P' and rng.random() < 0.5:
                arg = str(arg)
            path.append([kind, arg])
            cur = nxt
    return path


def broadcast(rng):
    """a regular nest of lists / dicts `depth` levels deep and a path with one wildcard per level followed by a final key or
    index: (cells, path).  Leaves are dicts (final key) or short lists (final index); some leaves lack the final key."""
    depth = rng.choice([1, 2, 2, 3, 3, 4])
    leaf_kind = rng.choice(['dict', 'dict', 'list'])
    cells = []

    def mk(level):
        idx = len(cells)
        cells.append(None)
        if level == depth:
            if leaf_kind == 'dict':
                items = [['k', rng.choice([1, 2, 'v'])], ['n', 0]]
                if rng.random() < 0.2:
                    items = [['n', 0]]                      # the final key is missing here
                cells[idx] = {'k': 'dict', 'od': False, 'items': items}
            else:
                cells[idx] = {'k': 'list', 'items': [0, 0][:rng.choice([2, 2, 1])]}
            return idx
        kids = [mk(level + 1) for _ in range(rng.choice([1, 2, 2, 3]))]
        if rng.random() < 0.6:
            cells[idx] = {'k': 'list', 'items': [{'ref': k} for k in kids]}
        else:
            cells[idx] = {'k': 'dict', 'od': False, 'items': [['c%d' % j, {'ref': k}] for j, k in enumerate(kids)]}
        return idx
    mk(0)
    star = [rng.choice(['x', 'x', 'x', 'X'])] if depth == 1 else ['x']
    path = [[star[0]] for _ in range(depth)] + [['P', 'k'] if leaf_kind == 'dict' else rng.choice([['P', '0'], ['P', 0], ['[', 0], ['P', '1']])]
    return cells, path


def generate(rng, tier):
    n = 1500 if tier == 'quick' else 12000
    out = [{'kind': 'glommer', 'i': i} for i in range(len(glommer_scenarios()))]
    out += [{'kind': 'sroot', 'i': i} for i in range(len(sroot_scenarios()))]
    for _ in range(n // 8):
        cells, path = broadcast(rng)
        out.append({'cells': cells, 'target': {'ref': 0}, 'path': path, 'val': {'lit': rng.choice([9, 'w'])}, 'missing': None})
    g = HeapGen(rng, cyclic=0.2)
    for _ in range(n):
        cells = g.heap(rng.randint(1, 7))
        for c in cells:
            if c['k'] == 'obj' and rng.random() < 0.15:
                c['cls'] = 2
        target = {'ref': 0}
        styles = rng.choice([['P'], ['P'], ['P', '[', '.'], ['[', '.']])
        path = walk(rng, cells, target, rng.randint(1, 4), styles, 0.15)
        if rng.random() < 0.15 and len(path) >= 2 and all(p[0] == 'P' for p in path[:-1]):
            path[rng.randrange(len(path) - 1)] = [rng.choice(['x', 'X'])]
        vk = rng.random()
        if vk < 0.12:
            val = {'opaque': True}      # Val(T['zz']): evaluates to a T object, which must be stored as it is
        elif vk < 0.6:
            val = {'lit': rng.choice([1, 'v', None, True, 42])}
        elif vk < 0.8:
            objs = [i for i, c in enumerate(cells) if c['k'] == 'obj']
            val = {'ref': rng.choice(objs)} if objs else {'lit': 7}
        else:
            val = {'path': walk(rng, cells, target, rng.randint(1, 2), ['['], 0.1)}
            val['path'] = [['[', a] for _, a in val['path']]
        missing = rng.choice([None, None, None, 'dict', 'dict', 'list', 'obj', 'raise'])
        out.append({'cells': cells, 'target': target, 'path': path, 'val': val, 'missing': missing})
    return out


# ---------- missing= under a Glommer with its own registrations (decided on the implementation side: the heap model has one
# registry) — the created tail is filled through the running scope's registry, like everything else ----------
class Box:
    """a container only a Glommer knows how to read and fill"""
    def __init__(self):
        self.slots = {}

    def fetch(self, key):
        return self.slots[key]

    def put(self, key, val):
        self.slots[key] = val


def glommer_scenarios():
    import collections
    import glom

    def box_glommer():
        g = glom.Glommer()
        g.register(Box, get=Box.fetch, assign=Box.put, exact=True)
        return g

    def ud_glommer():
        g = glom.Glommer()
        g.register(collections.UserDict, get=lambda o, k: o[k], assign=lambda o, k, v: o.__setitem__(k, v))
        return g
    return [
        ('box-tail', box_glommer, lambda: {'keep': 'me'}, 'a.b.c', Box, 42),
        ('box-one', box_glommer, lambda: {'keep': 'me'}, 'a.b', Box, 'v'),
        ('box-present', box_glommer, lambda: {'a': {'b': {}}}, 'a.b.c', Box, 1),
        ('userdict-tail', ud_glommer, lambda: collections.UserDict(keep=1), 'x.y.z', collections.UserDict, 'v'),
        ('dict-tail', box_glommer, lambda: {}, 'a.b.c', dict, 0),
    ]


def sroot_scenarios():
    """Assign under an S root (F35): the scope name spelled S.k / S['k'] / Path(S, 'k'), alone and as the first of several steps, bound,
    or absent with missing=; (spec, reader, expected value of the reader)"""
    from glom import S, T, Assign, Path, Val

    class O:
        pass
    return [
        ('S.k alone', (Assign(S.k, T['v']), S.k), 5),
        ("S['k'] alone", (Assign(S['k'], T['v']), S['k']), 5),
        ("Path(S, 'k') alone", (Assign(Path(S, 'k'), T['v']), S.k), 5),
        ('S.box[a]', (S(box=Val({})), Assign(S.box['a'], T['v']), S.box), {'a': 5}),
        ('S.box[a][b]', (S(box=Val({'a': {}})), Assign(S.box['a']['b'], T['v']), S.box), {'a': {'b': 5}}),
        ("S['box'][a][b] missing a", (S(box=Val({})), Assign(S['box']['a']['b'], T['v'], missing=dict), S.box), {'a': {'b': 5}}),
        ('S.box[a][b][c] missing a', (S(box=Val({})), Assign(S.box['a']['b']['c'], T['v'], missing=dict), S.box), {'a': {'b': {'c': 5}}}),
        ('S.box absent, missing=', (Assign(S.box['a']['b'], T['v'], missing=dict), S.box), {'a': {'b': 5}}),
        ("S['box'] absent, missing=", (Assign(S['box']['a'], T['v'], missing=dict), S['box']), {'a': 5}),
        ('S.o.z attribute', (S(o=Val(O())), Assign(S.o.z, T['v']), S.o.z), 5),
        ('S.box.*[k]', (S(box=Val({'p': {}, 'q': {}})), Assign(S.box.__star__()['k'], T['v']), S.box), {'p': {'k': 5}, 'q': {'k': 5}}),
        ('shadowing a binding', (S(k=Val(1)), Assign(S.k, T['v']), S.k), 5),
        # F39: the argument of the LAST step is evaluated like those before it (reading the same path back gives the value)
        ('T-valued last index', (Assign(T['a'][T['k']], T['v']), T['a'][T['k']]), 5, lambda: {'v': 5, 'a': {}, 'k': 'x'}),
        ('T-valued last index, whole target', (Assign(T['a'][T['k']], 9), T), {'a': {'x': 9}, 'k': 'x'}, lambda: {'a': {}, 'k': 'x'}),
        ('T-valued index before the last', (Assign(T['a'][T['k']]['z'], 1), T['a']), {'x': {'z': 1}}, lambda: {'a': {'x': {}}, 'k': 'x'}),
        ('tuple key as last index', (Assign(T['a'][(1, 2)], 5), T['a']), {(1, 2): 5}, lambda: {'a': {(1, 2): 0}}),
        ('T-valued last index under S', (S(w=T['d']), Assign(S.w['a'][T['k']], 1), S.w), {'a': {'x': 1}}, lambda: {'d': {'a': {}}, 'k': 'x'}),
        # a computed index at the first ABSENT step under missing=: the filled key is the evaluated one
        ('T-valued index at the first absent step', (Assign(T['a'][T['k']]['c'], 1, missing=dict), T), {'k': 'x', 'a': {'x': {'c': 1}}}, lambda: {'k': 'x', 'a': {}}),
        ('T-valued index at the first absent step, deeper', (Assign(T['a'][T['k']]['c']['d'], 1, missing=dict), T['a']), {'x': {'c': {'d': 1}}}, lambda: {'k': 'x', 'a': {}}),
        ('T-valued last index after a fill', (Assign(T['a']['b'][T['k']], 1, missing=dict), T['a']), {'b': {'x': 1}}, lambda: {'k': 'x', 'a': {}}, 'may refuse'),
        ('T-valued absent step and T-valued last step', (Assign(T['a'][T['k']][T['j']], 1, missing=dict), T['a']), {'x': {'y': 1}}, lambda: {'k': 'x', 'j': 'y', 'a': {}}, 'may refuse'),
    ]


def run_sroot(case):
    import glom
    name, spec, want, *own = sroot_scenarios()[case['i']]
    target = own[0]() if own else {'v': 5}
    try:
        got = glom.glom(target, spec)
    except Exception as e:
        if len(own) > 1:
            # the implementation evaluates a computed index BEHIND the first absent step against the fresh container and refuses;
            # the property allows a refusal that leaves the target as it was, so only that is required here
            return {'problems': [] if target == own[0]() else ['sroot %s: refused but the target was changed: %r' % (name, target)]}
        return {'problems': ['sroot %s: raised %s' % (name, type(e).__name__)]}
    problems = []
    if got != want:
        problems.append('sroot %s: reading the destination back gives %r, not %r' % (name, got, want))
    if not own and target != {'v': 5}:
        problems.append('sroot %s: the target was modified: %r' % (name, target))
    return {'problems': problems}


def run_glommer(case):
    import glom
    name, mk, mk_target, path, factory, val = glommer_scenarios()[case['i']]
    g = mk()
    target = mk_target()
    made = []

    def fac():
        o = factory()
        made.append(o)
        return o
    problems = []
    try:
        ret = g.glom(target, glom.Assign(path, val, missing=fac))
    except Exception as e:
        return {'problems': ['%s: Assign(%r, missing=%s) under a Glommer raised %s' % (name, path, factory.__name__, type(e).__name__)]}
    if ret is not target:
        problems.append('%s: the target object was not returned' % name)
    try:
        back = g.glom(target, path)
    except Exception as e:
        back = ('raise', type(e).__name__)
    if back != val:
        problems.append('%s: reading %r back through the same Glommer gives %r, not the assigned %r' % (name, path, back, val))
    stray = [sorted(vars(o)) for o in made if isinstance(o, Box) and sorted(vars(o)) != ['slots']]
    if stray:
        problems.append('%s: attributes %r were written on created containers (off the registered assign handler)' % (name, stray))
    return {'problems': problems}


def corpus():
    cells = [{'k': 'dict', 'od': False, 'items': [['a', 'a']]}]
    return [
        {'cells': cells, 'target': {'ref': 0}, 'path': [['P', 'c'], ['P', 'd']], 'val': {'path': [['[', 'a']]}, 'missing': 'dict'},
        {'cells': cells, 'target': {'ref': 0}, 'path': [['P', 'c'], ['P', 'd']], 'val': {'lit': 1}, 'missing': None},
        {'cells': cells, 'target': {'ref': 0}, 'path': [['P', 'c'], ['P', 'd']], 'val': {'opaque': True}, 'missing': 'dict'},
        {'cells': [{'k': 'dict', 'od': False, 'items': [['a', {'ref': 1}]]}, {'k': 'tuple', 'items': [1, 2]}], 'target': {'ref': 0},
         'path': [['P', 'a'], ['P', '0']], 'val': {'lit': 1}, 'missing': None},
        {'cells': [{'k': 'dict', 'od': False, 'items': [['a', {'ref': 1}]]}, {'k': 'list', 'items': [1, 2]}], 'target': {'ref': 0},
         'path': [['P', 'a'], ['P', '5']], 'val': {'lit': 1}, 'missing': 'dict'},
        {'cells': [{'k': 'dict', 'od': False, 'items': [['a', {'ref': 0}]]}], 'target': {'ref': 0},
         'path': [['P', 'a'], ['P', 'a']], 'val': {'lit': 5}, 'missing': None},
    ]


def build_path(path):
    import glom
    if all(p[0] == 'P' and isinstance(p[1], str) and '.' not in p[1] and p[1] not in ('*', '**', '') for p in path) and len(path) % 2 == 0:
        return '.'.join(p[1] for p in path)
    parts = []
    chunk = None
    for p in path:
        if p[0] == 'P':
            if chunk is not None:
                parts.append(chunk)
                chunk = None
            parts.append(p[1])
        else:
            t = chunk if chunk is not None else glom.T
            if p[0] == '[':
                t = t[p[1]]
            elif p[0] == '.':
                t = getattr(t, p[1])
            elif p[0] == 'x':
                t = t.__star__()
            else:
                t = t.__starstar__()
            chunk = t
    if chunk is not None:
        parts.append(chunk)
    return glom.Path(*parts)


class Counting:
    def __init__(self, f):
        self.f, self.n = f, 0

    def __call__(self):
        self.n += 1
        return self.f()


def factory_of(name):
    if name == 'dict':
        return Counting(dict)
    if name == 'list':
        return Counting(list)
    if name == 'obj':
        return Counting(lambda: cls_of(0)())
    if name == 'raise':
        def boom():
            raise ValueError('factory')
        return Counting(boom)
    return None


def snapshot(hr, cells):
    """state of every original cell; objects not in the original heap are inlined"""
    def enc(o, depth=0):
        v = hr.enc(o)
        if isinstance(v, dict) and 'foreign' in v:
            if depth > 6:
                return {'foreign': 'deep'}
            import collections
            if type(o) in (dict, collections.OrderedDict):
                return {'new': 'dict', 'od': type(o) is not dict, 'items': [[k, enc(x, depth + 1)] for k, x in o.items()]}
            if type(o) is list:
                return {'new': 'list', 'items': [enc(x, depth + 1) for x in o]}
            if type(o) is tuple:
                return {'new': 'tuple', 'items': [enc(x, depth + 1) for x in o]}
            if hasattr(o, '__dict__'):
                cn = type(o).__name__
                return {'new': 'obj', 'cls': int(cn[1:]) if cn[0] == 'C' and cn[1:].isdigit() else 99,
                        'attrs': [[k, enc(x, depth + 1)] for k, x in o.__dict__.items()]}
        return v
    out = []
    for i, c in enumerate(cells):
        o = hr.objs[i]
        if c['k'] == 'dict':
            out.append({'k': 'dict', 'od': c['od'], 'items': [[k, enc(v)] for k, v in o.items()]})
        elif c['k'] in ('list', 'tuple'):
            out.append({'k': c['k'], 'items': [enc(v) for v in o]})
        else:
            out.append({'k': 'obj', 'cls': c['cls'], 'attrs': [[k, enc(v)] for k, v in o.__dict__.items()]})
    return out


def run_impl(case):
    import glom
    if case.get('kind') == 'glommer':
        return run_glommer(case)
    if case.get('kind') == 'sroot':
        return run_sroot(case)

    def setup():
        hr = HeapRealiser(case['cells'], class_factory)
        target = hr.val(case['target'])
        v = case['val']
        if 'lit' in v:
            val = v['lit']
        elif 'opaque' in v:
            val = glom.Val(glom.T['zz'])
        elif 'ref' in v:
            val = hr.objs[v['ref']]
        else:
            t = glom.T
            for _, a in v['path']:
                t = t[a]
            val = t
        return hr, target, val, factory_of(case['missing'])
    hr, target, val, fac = setup()
    before = snapshot(hr, case['cells'])
    try:
        kw = {'missing': fac} if fac is not None else {}
        ret = glom.assign(target, build_path(case['path']), val, **kw)
    except Exception as e:
        out = exc_outcome(e)
        out['after'] = snapshot(hr, case['cells'])
        out['unchanged'] = out['after'] == before
    else:
        out = {'ok': True, 'same_object': ret is target, 'after': snapshot(hr, case['cells']), 'calls': fac.n if fac else 0}
    # the same destination reached from a scope variable holding the target — Assign(S.v.<path>, ...) and Assign(S['v'].<path>, ...)
    # (F35): same effect on the heap, same outcome, same number of factory calls
    hr2, target2, val2, fac2 = setup()
    kw = {'missing': fac2} if fac2 is not None else {}
    root = glom.S.v if len(repr(case['path'])) % 2 else glom.S['v']
    try:
        bp = build_path(case['path'])
        bp = glom.Path.from_text(bp) if isinstance(bp, str) else bp
        glom.glom(target2, (glom.S(v=glom.T), glom.Assign(glom.Path(root, bp), val2, **kw)))
    except Exception as e:
        o2 = {'raise': exc_outcome(e)['raise']}
    else:
        o2 = {'ok': True, 'calls': fac2.n if fac2 else 0}
    o2['after'] = snapshot(hr2, case['cells'])
    a = {k: out.get(k) for k in ('ok', 'raise', 'after', 'calls')}
    b = {k: o2.get(k) for k in ('ok', 'raise', 'after', 'calls')}
    if a != b:
        out['problems'] = ['the same assignment through %r differs: %r, direct %r' % (root, b, a)]
    return out


def nval_coq(v):
    if isinstance(v, dict) and 'ref' in v:
        return '(NR %s)' % cnat(v['ref'])
    if isinstance(v, dict) and 'new' in v:
        return '(NNew %s)' % nnode_coq(v, v['new'])
    if isinstance(v, dict):
        return '(NR 4999%nat)'
    return '(NA %s)' % atom_coq(v)


def nnode_coq(c, k=None):
    k = k or c['k']
    if k == 'dict':
        return '(XDict %s %s)' % (cbool(c['od']), clist('(%s, %s)' % (atom_coq(a), nval_coq(v)) for a, v in c['items']))
    if k == 'list':
        return '(XList %s)' % clist(nval_coq(v) for v in c['items'])
    if k == 'tuple':
        return '(XTuple %s)' % clist(nval_coq(v) for v in c['items'])
    return '(XObj %s %s)' % (cnat(c['cls']), clist('(%s, %s)' % (cstr(a), nval_coq(v)) for a, v in c['attrs']))


def seg_coq(p):
    if p[0] == 'P':
        return '(MP %s)' % atom_coq(p[1])
    if p[0] == '[':
        return '(MIdx %s)' % atom_coq(p[1])
    if p[0] == '.':
        return '(MAttr %s)' % cstr(p[1])
    return 'MStar' if p[0] == 'x' else 'MStarStar'


FAC = {'dict': 'FacDict', 'list': 'FacList', 'obj': '(FacObj 0%nat)', 'raise': 'FacRaise'}


def impl_coq(out):
    if 'ok' in out:
        return '(MOk %s %s)' % (clist(nnode_coq(c) for c in out['after']), cnat(out['calls']))
    if 'raise' in out:
        return '(MRaise %s)' % cstr(out['raise'])
    return '(MRaise "harness")'


_TRIV = None


def coq_case(case, out):
    global _TRIV
    if case.get('kind') in ('glommer', 'sroot'):
        # decided on the implementation side; the Coq side gets a small ordinary case with its real outcome
        if _TRIV is None:
            t = corpus()[1]
            _TRIV = (t, run_impl(t))
        return coq_case(*_TRIV)
    v = case['val']
    if 'opaque' in v:
        mv = '(MVLit (GR 4999%nat))'
    elif 'lit' in v:
        mv = '(MVLit (GA %s))' % atom_coq(v['lit'])
    elif 'ref' in v:
        mv = '(MVLit (GR %s))' % cnat(v['ref'])
    else:
        mv = '(MVPath %s)' % clist(seg_coq(p) for p in v['path'])
    op = '(OpAssign %s %s %s)' % (clist(seg_coq(p) for p in case['path']), mv, 'None' if case['missing'] is None else '(Some %s)' % FAC[case['missing']])
    return '(mkM %s %s %s %s)' % (heap_coq(case['cells']), gval_coq(case['target']), op, impl_coq(out))


def model_dump_term(case):
    if case.get('kind') in ('glommer', 'sroot'):
        return '0'
    return 'm_model %s' % coq_case(case, {'raise': 'x'})


def direct_oracle(case, out):
    if case.get('kind') in ('glommer', 'sroot'):
        return '; '.join(out['problems'][:2]) if out.get('problems') else None
    if out.get('problems'):
        return '; '.join(out['problems'][:2])
    if out.get('ok') and not out.get('same_object'):
        return 'assign() did not return the target object'
    wild = any(p[0] in 'xX' for p in case['path'])
    if 'raise' in out and not wild and out.get('unchanged') is False:
        return 'assignment failed with %s but the target was modified' % out['raise']
    return None


def nontrivial(case, out):
    if case.get('kind') in ('glommer', 'sroot'):
        return True
    return len(case['path']) >= 2 or 'raise' in out or out.get('calls', 0) >= 1


def classify(case, out):
    if case.get('kind') == 'sroot':
        return 'sroot:%d' % case['i']
    if case.get('kind') == 'glommer':
        return 'glommer:%d' % case['i']
    wild = any(p[0] in 'xX' for p in case['path'])
    return '%s:%s:missing=%s%s' % ('raise:' + out['raise'] if 'raise' in out else 'ok', len(case['path']), case['missing'], ':wild' if wild else '')


def python_snippet(case):
    return ('import sys; sys.path.insert(0, "/verif/harness"); sys.path.insert(0, "/repo")\n'
            'import props.c11 as p; print(p.run_impl(%r))' % (case,))
