"""C12 — delete removes exactly the addressed element, or nothing."""
import props.c11 as c11
from lib import cbool, clist
from pyheap import HeapGen, HeapRealiser, heap_coq, gval_coq
from pyval import exc_outcome

ID = 'C12'
PROPERTY_FILE = 'Properties/C12'
MODEL_FILES = c11.MODEL_FILES
GENERATED_DEPS = []
COQ_HEADER = c11.COQ_HEADER
CHECK_FN = c11.CHECK_FN
UNMODELLED_FN = c11.UNMODELLED_FN
RULE = ('object graphs as for C11 (incl. a class whose __delattr__ raises, tuples, scalars); paths of 1-4 segments in every '
        'addressing style (plain segments, T[...], T.attr, wildcards in the parent) whose parent or final element is present or absent at '
        'every position; ignore_missing in {False, True}. Observed: exception class (PathDeleteError / PathAccessError / the raw fault) '
        'or the final state of every original cell; returned identity and "unchanged on failure" on the implementation side. '
        'Non-trivial: path length >= 2, or a failure, or ignore_missing swallowing a miss.')
ASSUMPTIONS = ['S-rooted destinations and containers with raising __delitem__ are not generated']
SHARD = 300


def corpus():
    cells = [{'k': 'dict', 'od': False, 'items': [['a', 1]]}]
    lst = [{'k': 'dict', 'od': False, 'items': [['l', {'ref': 1}]]}, {'k': 'list', 'items': [5, 6, 7]}]
    return [
        {'cells': cells, 'target': {'ref': 0}, 'path': [['[', 'k']], 'ignore_missing': False},
        {'cells': cells, 'target': {'ref': 0}, 'path': [['[', 'k']], 'ignore_missing': True},
        {'cells': cells, 'target': {'ref': 0}, 'path': [['P', 'k']], 'ignore_missing': False},
        {'cells': lst, 'target': {'ref': 0}, 'path': [['P', 'l'], ['P', '1']], 'ignore_missing': False},
        {'cells': lst, 'target': {'ref': 0}, 'path': [['P', 'zz'], ['P', '1']], 'ignore_missing': True},
        {'cells': lst, 'target': {'ref': 0}, 'path': [['P', 'l'], ['[', 9]], 'ignore_missing': False},
    ]


def generate(rng, tier):
    n = 1500 if tier == 'quick' else 12000
    out = [{'kind': 'dyn', 'i': i} for i in range(len(dyn_scenarios()))]
    for _ in range(n // 8):
        cells, path = c11.broadcast(rng)
        out.append({'cells': cells, 'target': {'ref': 0}, 'path': path, 'ignore_missing': rng.random() < 0.5})
    g = HeapGen(rng, cyclic=0.2)
    for _ in range(n):
        cells = g.heap(rng.randint(1, 7))
        for c in cells:
            if c['k'] == 'obj' and rng.random() < 0.15:
                c['cls'] = 3
        styles = rng.choice([['P'], ['P'], ['P', '[', '.'], ['[', '.']])
        path = c11.walk(rng, cells, {'ref': 0}, rng.randint(1, 4), styles, 0.15)
        if rng.random() < 0.15 and len(path) >= 2 and all(p[0] == 'P' for p in path[:-1]):
            path[rng.randrange(len(path) - 1)] = [rng.choice(['x', 'X'])]
        out.append({'cells': cells, 'target': {'ref': 0}, 'path': path, 'ignore_missing': rng.random() < 0.4})
    return out


def dyn_scenarios():
    """F46: the argument of the last step may be a T expression, evaluated against the target like the arguments of the steps before it:
    (target factory, spec, expected result | exception class name, expected target afterwards)"""
    import glom
    from glom import T, S, Delete
    return [
        (lambda: {'k': 'a', 'a': 1, 'b': 2}, Delete(T[T['k']]), None, {'k': 'a', 'b': 2}),
        (lambda: {'k': 'a', 'd': {'a': 1, 'b': 2}}, Delete(T['d'][T['k']]), None, {'k': 'a', 'd': {'b': 2}}),
        (lambda: {'i': 1, 'l': [5, 6, 7]}, Delete(T['l'][T['i']]), None, {'i': 1, 'l': [5, 7]}),
        (lambda: {'k': 'zz', 'd': {'a': 1}}, Delete(T['d'][T['k']]), 'PathDeleteError', {'k': 'zz', 'd': {'a': 1}}),
        (lambda: {'k': 'zz', 'd': {'a': 1}}, Delete(T['d'][T['k']], ignore_missing=True), None, {'k': 'zz', 'd': {'a': 1}}),
        (lambda: {'k': 'a', 'd': {'a': 1, 'b': 2}}, (S(w=T['d']), Delete(S['w'][T['k']]), T), None, {'k': 'a', 'd': {'b': 2}}),
        (lambda: {'k': 'a', 'rows': [{'a': 1, 'b': 2}, {'a': 3}]}, Delete(T['rows'].__star__()[T['k']]), None, {'k': 'a', 'rows': [{'b': 2}, {}]}),
    ]


def run_dyn(case):
    import glom
    mk, spec, exc, after = dyn_scenarios()[case['i']]
    target = mk()
    try:
        ret = glom.glom(target, spec)
        got = None if ret is target else 'returned another object'
    except glom.GlomError as e:
        got = type(e).__name__
    problems = []
    if got != exc:
        problems.append('dynamic last argument, scenario %d: outcome %r, required %r' % (case['i'], got, exc))
    if target != after:
        problems.append('dynamic last argument, scenario %d: target afterwards %r, required %r' % (case['i'], target, after))
    return {'problems': problems}


_TRIV = None


def run_impl(case):
    import glom
    if case.get('kind') == 'dyn':
        return run_dyn(case)
    hr = HeapRealiser(case['cells'], c11.class_factory)
    target = hr.val(case['target'])
    before = c11.snapshot(hr, case['cells'])
    try:
        ret = glom.delete(target, c11.build_path(case['path']), ignore_missing=case['ignore_missing'])
    except Exception as e:
        out = exc_outcome(e)
        out['after'] = c11.snapshot(hr, case['cells'])
        out['unchanged'] = out['after'] == before
        return out
    return {'ok': True, 'same_object': ret is target, 'after': c11.snapshot(hr, case['cells']), 'calls': 0}


def coq_case(case, out):
    global _TRIV
    if case.get('kind') == 'dyn':
        if _TRIV is None:
            t = corpus()[0]
            _TRIV = (t, run_impl(t))
        return coq_case(*_TRIV)
    op = '(OpDelete %s %s)' % (clist(c11.seg_coq(p) for p in case['path']), cbool(case['ignore_missing']))
    return '(mkM %s %s %s %s)' % (heap_coq(case['cells']), gval_coq(case['target']), op, c11.impl_coq(out))


def model_dump_term(case):
    if case.get('kind') == 'dyn':
        return '0'
    return 'm_model %s' % coq_case(case, {'raise': 'x'})


def direct_oracle(case, out):
    if case.get('kind') == 'dyn':
        return '; '.join(out['problems']) if out.get('problems') else None
    if out.get('ok') and not out.get('same_object'):
        return 'delete() did not return the target object'
    wild = any(p[0] in 'xX' for p in case['path'])
    if 'raise' in out and not wild and out.get('unchanged') is False:
        return 'deletion failed with %s but the target was modified' % out['raise']
    return None


def nontrivial(case, out):
    if case.get('kind') == 'dyn':
        return True
    return len(case['path']) >= 2 or 'raise' in out or case['ignore_missing']


def classify(case, out):
    if case.get('kind') == 'dyn':
        return 'dyn'
    wild = any(p[0] in 'xX' for p in case['path'])
    return '%s:%s:ign=%s%s' % ('raise:' + out['raise'] if 'raise' in out else 'ok', len(case['path']), case['ignore_missing'], ':wild' if wild else '')


def python_snippet(case):
    return ('import sys; sys.path.insert(0, "/verif/harness"); sys.path.insert(0, "/repo")\n'
            'import props.c12 as p; print(p.run_impl(%r))' % (case,))
