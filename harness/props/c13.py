"""C13 — handlers are chosen by nearest registered type, immediately and in isolation."""
import abc
import collections
import operator

from lib import cstr, cnat, cbool, clist

ID = 'C13'
PROPERTY_FILE = 'Properties/C13'
MODEL_FILES = ['Model/Registry', 'Corr/C13']
GENERATED_DEPS = []
COQ_HEADER = ('From Coq Require Import String List.\nImport ListNotations.\n'
              'From Glom Require Import Base.PyVal Model.Registry Corr.C13.\nLocal Open Scope string_scope.\n')
CHECK_FN = 'c13_check'
UNMODELLED_FN = '(fun c => negb (c13_hyp c))'
RULE = ('class universes of 2-7 user classes (chains, diamonds, mixins, builtin subclasses of dict/list, classes with __slots__, '
        'iterable classes, a virtual ABC with registered members) on top of the default types; histories of 2-10 events mixing '
        'register(type, get/iterate/keys/assign/delete=tagged handler, exact in {False, True}) and lookups get_handler(op, instance) '
        'of every user class and the builtin containers, on {default registry incl. assign/delete ops, Glommer() registry, bare '
        'registry}; the initial registry state (type maps and trees, whose assign/delete sibling order depends on hash order) is '
        'read from the implementation and its well-formedness checked inside Coq; observed: the handler (tag) each lookup returns or '
        'UnregisteredTarget. thorough enumerates all orders of all subsets of <= 4 registrations for 40 universes. '
        'Non-trivial: >= 2 registrations of related classes before a lookup.')
ASSUMPTIONS = ['issubclass / isinstance / __mro__ of the concrete classes are measured and passed to the model as the class universe',
               'register_op itself (hash-ordered tree construction) is observed, not modelled: the initial trees are inputs',
               'hypotheses of the theorems (reflexive issubclass, real bases are instances, isinstance upward closed along registered '
               'subtype edges, well-formed initial trees) are checked by a boolean checker on every case; cases violating them are '
               'reported as unmodelled and not counted']
SHARD = 150

OPS = ['get', 'iterate', 'keys', 'assign', 'delete']


def _defaults():
    from glom import core
    return [object, dict, list, tuple, collections.OrderedDict, core._AbstractIterable, core._ObjStyleKeys]


def build_universe(desc):
    """desc: list of class descriptors {bases: [idx...], slots, iterable, virtual_of}; idx refers to the universe
    (0-6 default types, 7.. user classes). Returns list of python classes (whole universe)."""
    classes = list(_defaults())
    for i, d in enumerate(desc):
        bases = tuple(classes[b] for b in d['bases']) or (object,)
        ns = {}
        if d.get('slots'):
            ns['__slots__'] = ()
        if d.get('iterable'):
            ns['__iter__'] = lambda self: iter(())
        if d.get('duck_of'):
            # a duck type in the style of glom's own _ObjStyleKeys: matched through a metaclass __instancecheck__ only
            # (isinstance holds for instances of the listed classes, issubclass does not)
            matches = tuple(classes[j] for j in d['duck_of'])

            class DuckMeta(type):
                def __instancecheck__(cls, obj, _m=matches):
                    return isinstance(obj, _m) if _m else False
            cls = DuckMeta('U%d' % i, (object,), {})
        elif d.get('abc'):
            cls = abc.ABCMeta('U%d' % i, bases, ns)
        else:
            cls = type('U%d' % i, bases, ns)
        classes.append(cls)
    for i, d in enumerate(desc):
        for v in d.get('virtual_of', []):
            classes[v].register(classes[7 + i])
    return classes


def instance_of(cls):
    from glom import core
    if cls is core._AbstractIterable or cls is core._ObjStyleKeys:
        return None
    try:
        return cls()
    except Exception:
        return None


def corpus():
    # F16: default registry, register(A, get=h), lookup instance of B(A)
    f16 = {'classes': [{'bases': []}, {'bases': [7]}], 'registry': 'default',
           'events': [['register', 7, ['get'], False], ['lookup', 'get', 8], ['lookup', 'iterate', 8], ['lookup', 'get', 7]]}
    # F19: bare registry, X(W), Y(X, N), Z(Y); register X, Y, N, W; look up Z
    f19 = {'classes': [{'bases': []}, {'bases': []}, {'bases': [7]}, {'bases': [9, 8]}, {'bases': [10]}], 'registry': 'bare',
           'events': [['register', 9, ['get'], False], ['register', 10, ['get'], False], ['register', 8, ['get'], False],
                      ['register', 7, ['get'], False], ['lookup', 'get', 11], ['lookup', 'get', 10], ['lookup', 'get', 9]]}
    ex = {'classes': [{'bases': []}, {'bases': [7]}], 'registry': 'default',
          'events': [['register', 7, ['get'], False], ['register', 8, ['get'], True], ['lookup', 'get', 8], ['lookup', 'get', 7],
                     ['register', 7, ['get'], False], ['lookup', 'get', 8]]}
    return [f16, f19, ex]


class Gen:
    def __init__(self, rng):
        self.r = rng

    def classes(self):
        r = self.r
        n = r.randint(2, 7)
        desc = []
        for i in range(n):
            k = r.choice([0, 1, 1, 1, 2])
            cands = list(range(7, 7 + i))
            bases = r.sample(cands, min(k, len(cands)))
            if not bases and r.random() < 0.2:
                bases = [r.choice([1, 2])]          # builtin subclass of dict / list
            d = {'bases': sorted(bases, reverse=True), 'slots': r.random() < 0.15 and not bases,
                 'iterable': r.random() < 0.2, 'abc': False, 'virtual_of': []}
            desc.append(d)
        if r.random() < 0.25 and n >= 2:
            # the last class becomes a duck type matching the instances of one or two earlier classes
            ks = r.sample(range(n - 1), min(n - 1, r.choice([1, 1, 2])))
            desc[n - 1] = {'bases': [], 'slots': False, 'iterable': False, 'abc': False, 'virtual_of': [], 'duck_of': sorted(7 + k for k in ks)}
        if r.random() < 0.25:
            # one ABC with virtual members
            a = r.randrange(n)
            if not desc[a]['bases']:
                desc[a]['abc'] = True
                for j in range(a + 1, n):
                    if r.random() < 0.4 and not desc[j]['bases']:
                        desc[j]['virtual_of'].append(7 + a)
        return desc

    def valid(self, desc):
        try:
            build_universe(desc)
            return True
        except TypeError:
            return False

    def case(self, registry=None):
        r = self.r
        desc = self.classes()
        while not self.valid(desc):
            desc = self.classes()
        n = len(desc)
        reg = registry or r.choice(['default', 'default', 'glommer', 'bare'])
        ops_avail = OPS if reg == 'default' else ['get', 'iterate', 'keys']
        events = []
        for _ in range(r.randint(2, 10)):
            if r.random() < 0.5:
                t = r.randrange(7, 7 + n)
                kws = r.sample(ops_avail, r.choice([1, 1, 1, 2]))
                events.append(['register', t, kws, r.random() < 0.2])
            else:
                events.append(['lookup', r.choice(ops_avail), r.choice(list(range(7, 7 + n)) + [1, 2, 3])])
        ducks = [7 + i for i, d in enumerate(desc) if d.get('duck_of')]
        if ducks and r.random() < 0.7:
            # a lookup that is answered (and cached) first, then the registration of a duck type matching that instance, then the
            # same lookup again: the registration must take effect for it
            dk = r.choice(ducks)
            x = r.choice(desc[dk - 7]['duck_of'])
            op = r.choice(['iterate', 'keys', 'get'])
            events += [['lookup', op, x], ['register', dk, [op], r.random() < 0.3], ['lookup', op, x]]
        subs = [(7 + i, b) for i, d in enumerate(desc) for b in d['bases'] if b >= 7]
        if subs and r.random() < 0.6:
            # a type registered exact=True, a lookup of a subclass instance (answered and cached), then the SAME registration widened
            # to exact=False — with the very same handler objects, or with no handlers given at all — and the lookup again
            b, a = r.choice(subs)
            op = r.choice(ops_avail[:3])
            events += [['register', a, [op], True], ['lookup', op, b],
                       ['register', a, r.choice([[op], []]), False, True], ['lookup', op, b], ['lookup', op, a]]
        if r.random() < 0.35:
            # an operation registered AWAY (op=False) for a type, then the type registered again without naming that operation: it
            # stays registered away — for the type and for instances of its unregistered subclasses
            pool = [(7 + i, b) for i, d in enumerate(desc) for b in d['bases'] if b >= 7] or [(r.randrange(7, 7 + n),) * 2]
            b, a = r.choice(pool)
            op = r.choice(ops_avail)
            other = r.choice([x for x in ops_avail if x != op])
            events += [['register', a, ['!' + op], False], ['lookup', op, a], ['lookup', op, b],
                       ['register', a, r.choice([[other], []]), r.random() < 0.2], ['lookup', op, a], ['lookup', op, b]]
        if r.random() < 0.3:
            # re-registrations that repeat handler objects already in place
            for _ in range(r.randint(1, 3)):
                events.append(['register', r.randrange(7, 7 + n), r.sample(ops_avail, r.choice([0, 1, 2])), r.random() < 0.3, True])
                events.append(['lookup', r.choice(ops_avail), r.choice(list(range(7, 7 + n)))])
        for t in range(7, 7 + n):
            events.append(['lookup', r.choice(ops_avail[:2]), t])
        return {'classes': desc, 'registry': reg, 'events': events}


def generate(rng, tier):
    g = Gen(rng)
    n = 500 if tier == 'quick' else 4000
    out = [g.case() for _ in range(n)]
    if tier == 'thorough':
        import itertools
        for _ in range(40):
            base = g.case(registry=rng.choice(['default', 'bare']))
            nuser = len(base['classes'])
            pool = [7 + i for i in range(nuser)][:4]
            for k in range(1, len(pool) + 1):
                for subset in itertools.combinations(pool, k):
                    for order in itertools.permutations(subset):
                        ev = [['register', t, ['get'], False] for t in order]
                        ev += [['lookup', 'get', t] for t in range(7, 7 + nuser)]
                        out.append({'classes': base['classes'], 'registry': base['registry'], 'events': ev})
    return out


AUTO_TAGS = None


def _auto_tags():
    global AUTO_TAGS
    if AUTO_TAGS is None:
        from glom import mutation, core
        AUTO_TAGS = {id(getattr): 1, id(iter): 2, id(setattr): 3, id(operator.setitem): 4, id(mutation._set_sequence_item): 5,
                     id(delattr): 6, id(operator.delitem): 7, id(mutation._del_sequence_item): 8, id(operator.getitem): 9,
                     id(core._get_sequence_item): 10, id(dict.keys): 11, id(collections.OrderedDict.keys): 12,
                     id(core._ObjStyleKeys.get_keys): 13}
    return AUTO_TAGS


def tag_of(h):
    if h is False:
        return None
    if hasattr(h, 'verif_tag'):
        return h.verif_tag
    t = _auto_tags().get(id(h))
    if t is None:
        return 99
    return t


def make_registry(kind):
    from glom import core, mutation
    if kind == 'default':
        reg = core.TargetRegistry(register_default_types=True)
        reg.register_op('assign', auto_func=mutation._assign_autodiscover, exact=False)
        reg.register_op('delete', auto_func=mutation._delete_autodiscover, exact=False)
        return reg
    if kind == 'glommer':
        return core.Glommer().scope[core.TargetRegistry]
    return core.Glommer(register_default_types=False).scope[core.TargetRegistry]


def tree_ir(tree, idx):
    return [[idx[k], tree_ir(v, idx)] for k, v in tree.items() if k in idx] if all(k in idx for k in tree) else None


def observe_registry(reg, classes):
    idx = {c: i for i, c in enumerate(classes)}
    ops = []
    names = list(reg._op_type_map.keys())
    for op in names:
        tm = [[idx[t], tag_of(h)] for t, h in reg._op_type_map[op].items()]
        tt = tree_ir(reg._op_type_tree.get(op, {}), idx)
        ops.append([op, tm, tt])
    return {'ops': ops, 'auto_ops': list(reg._op_auto_map.keys())}


def run_impl(case):
    from glom import core
    classes = build_universe(case['classes'])
    n = len(classes)
    reg = make_registry(case['registry'])
    init = observe_registry(reg, classes)
    insts = [instance_of(c) for c in classes]
    sub = [[bool(issubclass(a, b)) for b in classes] for a in classes]
    inst = [[bool(o is not None and isinstance(o, b)) for b in classes] for o in insts]
    idx = {c: i for i, c in enumerate(classes)}
    mro = [[idx[m] for m in c.__mro__ if m in idx] for c in classes]
    auto = []
    for op, fn in reg._op_auto_map.items():
        row = []
        for c in classes:
            try:
                row.append(tag_of(fn(c)))
            except Exception:
                row.append(None)
        auto.append([op, row])
    results = []
    tagn = 100
    last = {}
    for ev in case['events']:
        if ev[0] == 'register':
            _, t, kws, exact = ev[:4]
            reuse = len(ev) > 4 and ev[4]
            kw = {}
            tags = []
            for op in kws:
                if op.startswith('!'):
                    kw[op[1:]] = False                  # "this type does not support the operation", said explicitly
                    tags.append(None)
                    last.pop((t, op[1:]), None)
                    continue
                if reuse and (t, op) in last:
                    kw[op], tg = last[(t, op)]          # the handler object registered for this type before
                else:
                    tagn += 1
                    kw[op], tg = _mk_handler(op, tagn), tagn
                last[(t, op)] = (kw[op], tg)
                tags.append(tg)
            reg.register(classes[t], exact=exact, **kw)
            results.append({'tags': tags})
        else:
            _, op, t = ev
            try:
                h = reg.get_handler(op, insts[t])
                results.append({'h': tag_of(h)})
            except core.UnregisteredTarget:
                results.append({'h': None})
    out = {'init': init, 'sub': sub, 'inst': inst, 'mro': mro, 'auto': auto, 'results': results}
    if case['registry'] == 'glommer':
        # a default Glommer behaves like the module-level glom: same handler for every operation and type
        g, d = make_registry('glommer'), make_registry('default')
        diffs = []
        for op in OPS:
            for t, o in enumerate(insts):
                if o is None:
                    continue
                a = tag_of(g.get_handler(op, o, raise_exc=False))
                b = tag_of(d.get_handler(op, o, raise_exc=False))
                if a != b:
                    diffs.append([op, t, a, b])
        out['glommer_vs_default'] = diffs
    return out


def _mk_handler(op, tag):
    if op == 'get':
        f = lambda o, k: ('tag', tag)  # noqa: E731
    elif op == 'iterate':
        f = lambda o: iter([('tag', tag)])  # noqa: E731
    elif op == 'keys':
        f = lambda o: ['k']  # noqa: E731
    elif op == 'assign':
        f = lambda o, k, v: None  # noqa: E731
    else:
        f = lambda o, k: None  # noqa: E731
    f.verif_tag = tag
    return f


def h_coq(t):
    return 'HFalse' if t is None else '(HTag %s)' % cnat(t)


def tree_coq(tr):
    return clist('(Node %s %s)' % (cnat(c), tree_coq(k)) for c, k in tr)


def coq_case(case, out):
    if 'init' not in out:
        return '(mkC13 (mkU [] [] [] []) (mkReg [] [] []) [ELookup "harness" 0%nat (Some HFalse)])'
    bm = lambda m: clist(clist(cbool(x) for x in row) for row in m)  # noqa: E731
    u = '(mkU %s %s %s %s)' % (bm(out['sub']), bm(out['inst']), clist(clist(cnat(x) for x in row) for row in out['mro']),
                               clist('(%s, %s)' % (cstr(op), clist(h_coq(x) for x in row)) for op, row in out['auto']))
    ops = []
    for op, tm, tt in out['init']['ops']:
        if tt is None:
            return '(mkC13 (mkU [] [] [] []) (mkReg [] [] []) [ELookup "foreign-type-in-tree" 0%nat (Some HFalse)])'
        ops.append('(%s, mkOp %s %s)' % (cstr(op), clist('(%s, %s)' % (cnat(t), h_coq(h)) for t, h in tm), tree_coq(tt)))
    reg = '(mkReg %s %s [])' % (clist(ops), clist(cstr(x) for x in out['init']['auto_ops']))
    evs = []
    for ev, res in zip(case['events'], out['results']):
        if ev[0] == 'register':
            kw = clist('(%s, %s)' % (cstr(op.lstrip('!')), h_coq(tg)) for op, tg in zip(ev[2], res['tags']))
            evs.append('(ERegister %s %s %s)' % (cnat(ev[1]), kw, cbool(ev[3])))
        else:
            evs.append('(ELookup %s %s %s)' % (cstr(ev[1]), cnat(ev[2]), 'None' if res['h'] is None else '(Some %s)' % h_coq(res['h'])))
    return '(mkC13 %s %s %s)' % (u, reg, clist(evs))


def model_dump_term(case):
    import sys
    out = run_impl(case)
    return 'c13_hyp %s' % coq_case(case, out)


def nontrivial(case, out):
    regs = [e[1] for e in case['events'] if e[0] == 'register']
    return len(set(regs)) >= 2 and any(e[0] == 'lookup' for e in case['events'])


def classify(case, out):
    return '%s:%d classes:%d regs' % (case['registry'], len(case['classes']), sum(1 for e in case['events'] if e[0] == 'register'))


def direct_oracle(case, out):
    """a default Glommer behaves like the module-level glom (same handler for every operation and instance)"""
    if out.get('glommer_vs_default'):
        d = out['glommer_vs_default'][0]
        return 'Glommer() and the default registry disagree for op %r on class %d: %r vs %r (%d differences)' % (
            d[0], d[1], d[2], d[3], len(out['glommer_vs_default']))
    return None


def python_snippet(case):
    return ('import sys; sys.path.insert(0, "/verif/harness"); sys.path.insert(0, "/repo")\n'
            'import props.c13 as p; print(p.run_impl(%r)["results"])' % (case,))
