"""C14 — wildcards enumerate children / descendants once, tolerate misses, terminate."""
from lib import cstr, cnat, clist
from pyheap import HeapGen, HeapRealiser, heap_coq, gval_coq, atom_coq
from pyval import exc_outcome

ID = 'C14'
PROPERTY_FILE = 'Properties/C14'
MODEL_FILES = ['Base/Heap', 'Model/Wild', 'Corr/C14']
GENERATED_DEPS = []
COQ_HEADER = ('From Coq Require Import String ZArith List.\nImport ListNotations.\n'
              'From Glom Require Import Base.PyVal Base.Heap Model.Wild Corr.C14.\nLocal Open Scope string_scope.\n')
CHECK_FN = 'c14_check'
UNMODELLED_FN = 'c14_unmodelled'
RULE = ('object graphs of 1-9 containers (dict, OrderedDict, list, tuple, attribute objects) with atoms and strings as leaves; '
        'children point forward (trees, DAGs with sharing) and with probability 0.3 anywhere (cycles, self-loops); paths of 1-5 steps '
        "with 0-3 wildcards (* / **) at every position, plain segments chosen from the keys present or absent, spelled as 'a.*.b' "
        'text and as Path(...) with T.__star__() / T.__starstar__() parts; entries compared by identity (containers) / value (atoms); '
        'every run under a 5 s alarm. Non-trivial: >= 1 wildcard on a graph with >= 3 containers, or a cyclic graph with **.')
ASSUMPTIONS = ['sets (hash order) and containers whose element access raises are not generated',
               'atoms have no children; identity of atoms is value']


def corpus():
    cyc = [{'k': 'dict', 'od': False, 'items': [['self', {'ref': 0}]]}]
    two = [{'k': 'dict', 'od': False, 'items': [['a', {'ref': 1}], ['b', {'ref': 1}]]}, {'k': 'list', 'items': [1, {'ref': 0}, 'x']}]
    return [
        {'cells': cyc, 'target': {'ref': 0}, 'steps': [['X']], 'spelling': 'text'},
        {'cells': cyc, 'target': {'ref': 0}, 'steps': [['X'], ['P', 'self']], 'spelling': 'text'},
        {'cells': two, 'target': {'ref': 0}, 'steps': [['X']], 'spelling': 'text'},
        {'cells': two, 'target': {'ref': 0}, 'steps': [['x'], ['x']], 'spelling': 'path'},
        {'cells': two, 'target': {'ref': 0}, 'steps': [['P', 'a'], ['x'], ['P', 'a']], 'spelling': 'text'},
        {'cells': two, 'target': {'ref': 0}, 'steps': [['X'], ['P', '0']], 'spelling': 'text'},
        {'cells': two, 'target': 'hello', 'steps': [['x']], 'spelling': 'text'},
        {'cells': two, 'target': 5, 'steps': [['X']], 'spelling': 'text'},
    ]


def generate(rng, tier):
    n = 1200 if tier == 'quick' else 12000
    out = []
    g = HeapGen(rng)
    for _ in range(n):
        cells = g.heap(rng.randint(1, 9))
        target = {'ref': 0} if rng.random() < 0.95 else g.atom()
        steps = []
        for _ in range(rng.randint(1, 5)):
            k = rng.random()
            if k < 0.3 and sum(1 for s in steps if s[0] in 'xX') < 3:
                steps.append(['x'])
            elif k < 0.5 and sum(1 for s in steps if s[0] in 'xX') < 3:
                steps.append(['X'])
            else:
                steps.append(['P', rng.choice(['a', 'b', 'c', 'k0', '0', '1', '-1', 'zz', 0, 1, None])])
        textable = all(s[0] != 'P' or (isinstance(s[1], str) and s[1] not in ('*', '**', '')) for s in steps)
        out.append({'cells': cells, 'target': target, 'steps': steps,
                    'spelling': 'text' if (textable and rng.random() < 0.5) else 'path'})
    return out


def _spec(case):
    import glom
    if case['spelling'] == 'text':
        return '.'.join({'x': '*', 'X': '**'}.get(s[0]) or s[1] for s in case['steps'])
    parts = []
    for s in case['steps']:
        if s[0] == 'x':
            parts.append(glom.T.__star__())
        elif s[0] == 'X':
            parts.append(glom.T.__starstar__())
        else:
            parts.append(s[1])
    return glom.Path(*parts)


def _enc(hr, res):
    if type(res) is list and id(res) not in hr.ids:
        return {'list': [_enc(hr, x) for x in res]}
    return {'val': hr.enc(res)}


def run_impl(case):
    import glom
    hr = HeapRealiser(case['cells'])
    target = hr.val(case['target'])
    try:
        res = glom.glom(target, _spec(case))
    except Exception as e:
        return exc_outcome(e)
    return {'ok': _enc(hr, res)}


def wres_coq(r):
    if 'list' in r:
        return '(WList %s)' % clist(wres_coq(x) for x in r['list'])
    v = r['val']
    if isinstance(v, dict) and 'foreign' in v:
        return '(WVal (GR 4999%nat))'
    return '(WVal %s)' % gval_coq(v)


def coq_case(case, out):
    steps = clist('WStar' if s[0] == 'x' else 'WStarStar' if s[0] == 'X' else '(WP %s)' % atom_coq(s[1]) for s in case['steps'])
    if 'ok' in out:
        impl = '(Ok %s)' % wres_coq(out['ok'])
    elif 'raise' in out:
        impl = '(Raise (mkExn %s %s %s ""))' % (cstr(out['raise']), cnat(out.get('part_idx', 0)), cstr(out.get('inner', '')))
    else:
        impl = 'OutOfFuel'      # harness timeout: the implementation did not terminate within the alarm
    return '(mkC14 %s %s %s %s)' % (heap_coq(case['cells']), gval_coq(case['target']), steps, impl)


def model_dump_term(case):
    return 'c14_model %s' % coq_case(case, {'raise': 'x'})


def _cyclic(cells):
    n = len(cells)
    adj = []
    for c in cells:
        vs = [v for _, v in c.get('items', [])] if c['k'] == 'dict' else c.get('items', [v for _, v in c.get('attrs', [])])
        adj.append([v['ref'] for v in vs if isinstance(v, dict)])
    color = [0] * n

    def dfs(u):
        color[u] = 1
        for w in adj[u]:
            if color[w] == 1 or (color[w] == 0 and dfs(w)):
                return True
        color[u] = 2
        return False
    return any(color[i] == 0 and dfs(i) for i in range(n))


def nontrivial(case, out):
    wild = [s for s in case['steps'] if s[0] in 'xX']
    if any(s[0] == 'X' for s in wild) and _cyclic(case['cells']):
        return True
    return bool(wild) and len(case['cells']) >= 3


def classify(case, out):
    w = sum(1 for s in case['steps'] if s[0] in 'xX')
    tag = 'cyc' if _cyclic(case['cells']) else 'dag'
    if 'raise' in out:
        return 'raise:%s:w%d:%s' % (out['raise'], w, tag)
    if 'ok' in out:
        return 'ok:w%d:%s' % (w, tag)
    return 'timeout'


def python_snippet(case):
    return ('import sys; sys.path.insert(0, "/verif/harness"); sys.path.insert(0, "/repo")\n'
            'import props.c14 as p; print(p.run_impl(%r))' % (case,))
