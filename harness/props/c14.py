"""C14 — wildcards enumerate children / descendants once, tolerate misses, terminate."""
from lib import cstr, cnat, clist
from pyheap import HeapGen, HeapRealiser, heap_coq, gval_coq, atom_coq
from pyval import exc_outcome

ID = 'C14'
PROPERTY_FILE = 'Properties/C14'
MODEL_FILES = ['Base/Heap', 'Model/Wild', 'Corr/C14']
GENERATED_DEPS = []
COQ_HEADER = ('From Coq Require Import String ZArith List.\nImport ListNotations.\n'
              'From Glom Require Import Base.PyVal Base.Heap Model.Wild Corr.C14.\nLocal Open Scope string_scope.\n')
CHECK_FN = 'c14_check'
UNMODELLED_FN = 'c14_unmodelled'
RULE = ('object graphs of 1-9 containers (dict, OrderedDict, list, tuple, attribute objects) with atoms and strings as leaves; '
        'children point forward (trees, DAGs with sharing) and with probability 0.3 anywhere (cycles, self-loops); paths of 1-5 steps '
        "with 0-3 wildcards (* / **) at every position, plain segments chosen from the keys present or absent, spelled as 'a.*.b' "
        'text and as Path(...) with T.__star__() / T.__starstar__() parts; entries compared by identity (containers) / value (atoms); '
        'every run under a 5 s alarm; plus mappings / objects with one unreadable child at every position under * / ** / *.key, and assign / delete through 1-4 wildcard levels against a plain loop. Non-trivial: >= 1 wildcard on a graph with >= 3 containers, or a cyclic graph with **.')
ASSUMPTIONS = ['sets (hash order) are not generated; containers with an unreadable child and Assign / Delete through one wildcard per level are decided against plain-Python references on the implementation side (the graph model has neither)',
               'atoms have no children; identity of atoms is value']


def corpus():
    cyc = [{'k': 'dict', 'od': False, 'items': [['self', {'ref': 0}]]}]
    two = [{'k': 'dict', 'od': False, 'items': [['a', {'ref': 1}], ['b', {'ref': 1}]]}, {'k': 'list', 'items': [1, {'ref': 0}, 'x']}]
    inner = [{'k': 'dict', 'od': False, 'items': [['a', {'ref': 1}], ['z', 0]]},
             {'k': 'dict', 'od': False, 'items': [['x', 1], ['self', {'ref': 1}], ['l', {'ref': 2}]]}, {'k': 'list', 'items': [{'ref': 1}, {'ref': 2}, 7]}]
    return [
        {'cells': cyc, 'target': {'ref': 0}, 'steps': [['X']], 'spelling': 'text'},
        {'cells': cyc, 'target': {'ref': 0}, 'steps': [['X'], ['P', 'self']], 'spelling': 'text'},
        {'cells': two, 'target': {'ref': 0}, 'steps': [['X']], 'spelling': 'text'},
        {'cells': two, 'target': {'ref': 0}, 'steps': [['x'], ['x']], 'spelling': 'path'},
        {'cells': two, 'target': {'ref': 0}, 'steps': [['P', 'a'], ['x'], ['P', 'a']], 'spelling': 'text'},
        {'cells': two, 'target': {'ref': 0}, 'steps': [['X'], ['P', '0']], 'spelling': 'text'},
        {'cells': two, 'target': 'hello', 'steps': [['x']], 'spelling': 'text'},
        {'cells': two, 'target': 5, 'steps': [['X']], 'spelling': 'text'},
        # ** started BELOW the root on a container that reaches itself: the start value is the one that counts as seen
        {'cells': inner, 'target': {'ref': 0}, 'steps': [['P', 'a'], ['X']], 'spelling': 'text'},
        {'cells': inner, 'target': {'ref': 0}, 'steps': [['P', 'a'], ['X']], 'spelling': 'path'},
        {'cells': inner, 'target': {'ref': 0}, 'steps': [['x'], ['X']], 'spelling': 'text'},
        {'cells': inner, 'target': {'ref': 0}, 'steps': [['P', 'a'], ['P', 'l'], ['X'], ['P', 'x']], 'spelling': 'path'},
    ]


def generate(rng, tier):
    n = 1200 if tier == 'quick' else 12000
    out = []
    g = HeapGen(rng)
    for _ in range(n):
        cells = g.heap(rng.randint(1, 9))
        target = {'ref': 0} if rng.random() < 0.95 else g.atom()
        steps = []
        for _ in range(rng.randint(1, 5)):
            k = rng.random()
            if k < 0.3 and sum(1 for s in steps if s[0] in 'xX') < 3:
                steps.append(['x'])
            elif k < 0.5 and sum(1 for s in steps if s[0] in 'xX') < 3:
                steps.append(['X'])
            else:
                steps.append(['P', rng.choice(['a', 'b', 'c', 'k0', '0', '1', '-1', 'zz', 0, 1, None])])
        textable = all(s[0] != 'P' or (isinstance(s[1], str) and s[1] not in ('*', '**', '')) for s in steps)
        out.append({'cells': cells, 'target': target, 'steps': steps,
                    'spelling': 'text' if (textable and rng.random() < 0.5) else 'path'})
        if out[-1]['spelling'] == 'text' and rng.random() < 0.3:
            out[-1]['full_cache'] = True       # the text is parsed while the path memo is full (it is then not stored): same meaning
    import props.c11 as c11
    for kind in ('dict', 'obj'):
        for pos in range(4):
            for inner in (False, True):
                out.append({'kind': 'flaky', 'shape': [kind, pos, inner]})
    out += [{'kind': 'subclass', 'i': i} for i in range(len(SUBCLASS_PATHS) + SCALAR_SUBCLASS_TARGETS)]
    for _ in range(n // 10):
        cells, path = c11.broadcast(rng)
        if any(p[0] == 'X' for p in path):
            continue                       # ** also matches the root and inner containers: C11 / C12's model decides those
        op = rng.choice(['assign', 'delete', 'delete'])
        out.append({'kind': 'broadcast', 'cells': cells, 'path': path, 'op': op, 'ignore_missing': op == 'delete' and rng.random() < 0.5})
    return out


# ---------- implementation-side kinds (decided against plain-Python references) ----------
class Flaky(dict):
    """a mapping whose access to one key raises"""
    def __getitem__(self, k):
        if k == 'broken':
            raise RuntimeError('cannot read %r' % (k,))
        return dict.__getitem__(self, k)


class FlakyObj:
    def __init__(self, **kw):
        self.__dict__.update(kw)

    def __getattribute__(self, k):
        if k == 'broken':
            raise RuntimeError('cannot read %r' % (k,))
        return object.__getattribute__(self, k)


def _children_ref(v):
    """the children a wildcard may enumerate: every child whose access works, in natural order"""
    out = []
    if isinstance(v, dict):
        for k in list(v.keys()):
            try:
                out.append(v[k])
            except Exception:
                pass
    elif isinstance(v, (list, tuple)):
        out.extend(v)
    elif hasattr(v, '__dict__'):
        for k in list(object.__getattribute__(v, '__dict__')):
            try:
                out.append(getattr(v, k))
            except Exception:
                pass
    return out


def _starstar_ref(v):
    seen, out, queue = {id(v)}, [v], [v]
    while queue:
        cur = queue.pop(0)
        for c in _children_ref(cur):
            out.append(c)
            if isinstance(c, (dict, list, tuple)) or hasattr(c, '__dict__'):
                if id(c) not in seen:
                    seen.add(id(c))
                    queue.append(c)
    return out


def _flaky_target(rng_choices):
    kind, pos, inner = rng_choices
    entries = [('a', 1), ('c', {'d': 3}), ('e', [4, 5])]
    entries.insert(pos, ('broken', 2))
    if kind == 'dict':
        t = Flaky(entries)
    else:
        t = FlakyObj(**dict(entries))
    return {'x': [t, [7]]} if inner else t


def run_flaky(case):
    import glom
    out = {'problems': []}
    t = _flaky_target(case['shape'])
    base = t['x'][0] if case['shape'][2] else t
    prefix = 'x.0.' if case['shape'][2] else ''
    for spec, ref in ((prefix + '*', _children_ref(base)), (prefix + '**', _starstar_ref(base)),
                      (prefix + '*.d', [3])):
        try:
            got = glom.glom(t, spec)
        except Exception as e:
            got = 'raise %s' % type(e).__name__
        if not (isinstance(got, list) and len(got) == len(ref) and all(a is b or a == b for a, b in zip(got, ref))):
            out['problems'].append('%r on a container with one unreadable child: got %r, the readable children give %r' % (spec, got, ref))
    return out


SUBCLASS_PATHS = ['*', '**', 'rows.*', 'rows.*.k', '**.k', 'rows.**']


def _subclass_target(sub):
    """the same data with the list / tuple / set containers replaced by instances of plain subclasses (which have a __dict__)"""
    class Rows(list):
        pass

    class Pair(tuple):
        pass

    class Tags(frozenset):
        pass
    L, P, F = (Rows, Pair, Tags) if sub else (list, tuple, frozenset)
    return {'rows': L([{'k': 1, 'p': P((7, 8))}, {'k': 2, 'p': P(())}, L([{'k': 3}])]), 'tags': F(['x'])}


SCALAR_SUBCLASS_TARGETS = 6     # 4 attributed scalar subclasses + 2 re-ordered OrderedDicts


def _scalar_subclass_target(i):
    """values whose class derives from str / float / int / bytes but which carry instance attributes: objects with attribute
    values like any other, at the root and below it"""
    class Tag(str):
        pass

    class Weight(float):
        pass

    class Code(int):
        pass

    class Blob(bytes):
        pass
    tag, w, c, b = Tag('x'), Weight(2.5), Code(700), Blob(b'zz')
    tag.meta = {'k': 1001}
    w.unit = ['kg']
    c.note = {'k': 1002}
    b.origin = ('file', 1003)
    return [[tag], {'a': w, 'b': [c]}, {'r': {'s': [b, {'k': 1004}]}, 't': tag}, tag][i]


def _bfs_by_star(root):
    """** spelled with *: the value itself, then breadth-first the children * lists, every object listed once"""
    import glom
    out, seen, queue = [root], {id(root)}, [root]
    while queue:
        node = queue.pop(0)
        try:
            children = glom.glom(node, '*')
        except glom.GlomError:
            children = []
        for ch in children:
            if id(ch) not in seen:
                seen.add(id(ch))
                out.append(ch)
                queue.append(ch)
    return out


def run_moved_odict(i):
    """an OrderedDict re-ordered in place (move_to_end): its natural order is the order of ITS keys() / values(), not the order
    of first insertion"""
    import collections
    import glom
    od = collections.OrderedDict([('a', {'k': 1}), ('b', {'k': 2}), ('c', {'k': 3})])
    if i == 0:
        od.move_to_end('a')
    else:
        od.move_to_end('c', last=False)
    vals = list(od.values())
    problems = []
    for spec, t, want in (('*', od, vals), (glom.T.__star__(), od, vals), ('*.k', od, [v['k'] for v in vals]),
                          ('x.*.k', {'x': od}, [v['k'] for v in vals]), ('**', od, [od] + vals + [v['k'] for v in vals])):
        for entry in (glom.glom, glom.Glommer().glom):
            try:
                got = entry(t, spec)
            except Exception as e:
                got = 'raise %s' % type(e).__name__
            if got != want:
                problems.append('%r on a re-ordered OrderedDict (keys now %r): %r, natural order gives %r' % (spec, list(od), got, want))
    return {'problems': problems}


def run_scalar_subclass(i):
    import glom
    if i >= SCALAR_SUBCLASS_TARGETS - 2:
        return run_moved_odict(i - (SCALAR_SUBCLASS_TARGETS - 2))
    problems = []
    t = _scalar_subclass_target(i)
    want = _bfs_by_star(t)
    for spec in ('**', glom.Path(glom.T.__starstar__()), glom.T.__starstar__()):
        try:
            got = glom.glom(t, spec)
        except Exception as e:
            problems.append('%r on %r raised %s' % (spec, t, type(e).__name__))
            continue
        if len(got) != len(want) or any(a is not b_ for a, b_ in zip(got, want)):
            problems.append('%r on %r lists %r; following * breadth-first from the value gives %r' % (spec, t, got, want))
    try:
        got = glom.glom(t, '**.k')
        want_k = [n['k'] for n in want if isinstance(n, dict) and 'k' in n]
        if got != want_k:
            problems.append("'**.k' on %r gives %r, the descendants holding k give %r" % (t, got, want_k))
    except Exception as e:
        problems.append("'**.k' on %r raised %s" % (t, type(e).__name__))
    return {'problems': problems}


def run_subclass(case):
    """F45: an instance of a list / tuple / set subclass is a sequence / set like its base: * and ** list its items"""
    import glom
    if case['i'] >= len(SUBCLASS_PATHS):
        return run_scalar_subclass(case['i'] - len(SUBCLASS_PATHS))
    spec = SUBCLASS_PATHS[case['i']]

    def plain(x):
        if isinstance(x, (list, tuple)):
            return [plain(v) for v in x]
        if isinstance(x, (set, frozenset)):
            return sorted(plain(v) for v in x)
        if isinstance(x, dict):
            return {k: plain(v) for k, v in x.items()}
        return x
    try:
        got = plain(glom.glom(_subclass_target(True), spec))
    except Exception as e:
        got = 'raise %s' % type(e).__name__
    want = plain(glom.glom(_subclass_target(False), spec))
    if got != want:
        return {'problems': ['%r over containers that are plain subclasses of list / tuple / frozenset: %r, over the base types %r' % (spec, got, want)]}
    return {'problems': []}


def run_broadcast(case):
    """Assign / Delete through one wildcard per level act on every match"""
    import copy
    import glom
    import props.c11 as c11
    hr = HeapRealiser(case['cells'], c11.class_factory)
    target = hr.val({'ref': 0})
    expect = copy.deepcopy(target)
    depth = len(case['path']) - 1
    last = case['path'][-1][1]

    def leaves(v, d):
        if d == 0:
            return [v]
        kids = list(v.values()) if isinstance(v, dict) else list(v)
        return [x for k in kids for x in leaves(k, d - 1)]
    problems = []
    ok = True
    for leaf in leaves(expect, depth):
        try:
            key = int(last) if isinstance(leaf, list) else last
            if case['op'] == 'assign':
                leaf[key] = 'W'
            else:
                del leaf[key]
        except (KeyError, IndexError):
            if not case.get('ignore_missing'):
                ok = False      # some match cannot take the operation: the whole call must fail (checked under C11 / C12)
            # with ignore_missing=True a match that lacks the element is passed over and every other match is still acted on
        except Exception:
            ok = False
    if ok:
        try:
            path = c11.build_path(case['path'])
            if case['op'] == 'assign':
                glom.assign(target, path, 'W')
            else:
                glom.delete(target, path, ignore_missing=bool(case.get('ignore_missing')))
            if target != expect:
                problems.append('%s through %d wildcards: got %r, acting on every match gives %r' % (case['op'], depth, target, expect))
        except Exception as e:
            problems.append('%s through %d wildcards raised %s although every match can take it' % (case['op'], depth, type(e).__name__))
    return {'problems': problems}


def _spec(case):
    import glom
    if case['spelling'] == 'text':
        return '.'.join({'x': '*', 'X': '**'}.get(s[0]) or s[1] for s in case['steps'])
    parts = []
    for s in case['steps']:
        if s[0] == 'x':
            parts.append(glom.T.__star__())
        elif s[0] == 'X':
            parts.append(glom.T.__starstar__())
        else:
            parts.append(s[1])
    return glom.Path(*parts)


def _enc(hr, res):
    if type(res) is list and id(res) not in hr.ids:
        return {'list': [_enc(hr, x) for x in res]}
    return {'val': hr.enc(res)}


_FALSY = {}


def falsy_factory(c):
    """the catalogue's attribute objects, two thirds of the classes FALSY (an empty user collection with __len__ 0, a response-like
    object whose __bool__ is False): having children does not depend on truthiness"""
    import pyval
    if c not in _FALSY:
        ns = {'__bool__': lambda self: False} if c % 3 == 1 else {'__len__': lambda self: 0} if c % 3 == 2 else {}
        _FALSY[c] = type('F%d' % c, (pyval.cls_of(c),), ns)
    return _FALSY[c]


def run_impl(case):
    import glom
    if case.get('kind') == 'flaky':
        return run_flaky(case)
    if case.get('kind') == 'subclass':
        return run_subclass(case)
    if case.get('kind') == 'broadcast':
        return run_broadcast(case)
    hr = HeapRealiser(case['cells'], falsy_factory)
    target = hr.val(case['target'])
    P = glom.core.Path
    saved = P._MAX_CACHE
    try:
        if case.get('full_cache'):
            # a memo that is over its limit: one stored text and a limit of zero (the limit is a class attribute; the state is the
            # one a long-running process reaches after 10001 distinct path texts)
            P._CACHE[True].clear()
            P._MAX_CACHE = 0
            P.from_text('filler')
        res = glom.glom(target, _spec(case))
    except Exception as e:
        out = exc_outcome(e)
    else:
        out = {'ok': _enc(hr, res)}
    finally:
        P._MAX_CACHE = saved
    if case['spelling'] != 'text' and not case.get('full_cache'):
        # the same steps taken from a scope variable holding the target: S.v.<steps> (F34: the steps after a wildcard are
        # applied to each child, whatever the path started from)
        hr2 = HeapRealiser(case['cells'], falsy_factory)
        target2 = hr2.val(case['target'])
        try:
            res2 = glom.glom(target2, (glom.S(v=glom.T), glom.Path(glom.S['v'], _spec(case))))
        except Exception as e:
            o2 = exc_outcome(e)
            if 'part_idx' in o2:
                o2['part_idx'] -= 1
        else:
            o2 = {'ok': _enc(hr2, res2)}
        a = {k: out.get(k) for k in ('ok', 'raise', 'part_idx', 'inner')}
        b = {k: o2.get(k) for k in ('ok', 'raise', 'part_idx', 'inner')}
        if a != b:
            out['problems'] = ['the same steps under an S root differ: T-rooted %r, S-rooted %r' % (a, b)]
    return out


def wres_coq(r):
    if 'list' in r:
        return '(WList %s)' % clist(wres_coq(x) for x in r['list'])
    v = r['val']
    if isinstance(v, dict) and 'foreign' in v:
        return '(WVal (GR 4999%nat))'
    return '(WVal %s)' % gval_coq(v)


TRIVIAL = '(mkC14 [] (GA (AInt 1)) [] (Ok (WVal (GA (AInt 1)))))'


def direct_oracle(case, out):
    if out.get('problems'):
        return '; '.join(out['problems'][:2])
    return None


def coq_case(case, out):
    if case.get('kind'):
        return TRIVIAL
    steps = clist('WStar' if s[0] == 'x' else 'WStarStar' if s[0] == 'X' else '(WP %s)' % atom_coq(s[1]) for s in case['steps'])
    if 'ok' in out:
        impl = '(Ok %s)' % wres_coq(out['ok'])
    elif 'raise' in out:
        impl = '(Raise (mkExn %s %s %s ""))' % (cstr(out['raise']), cnat(out.get('part_idx', 0)), cstr(out.get('inner', '')))
    else:
        impl = 'OutOfFuel'      # harness timeout: the implementation did not terminate within the alarm
    return '(mkC14 %s %s %s %s)' % (heap_coq(case['cells']), gval_coq(case['target']), steps, impl)


def model_dump_term(case):
    if case.get('kind'):
        return '0'
    return 'c14_model %s' % coq_case(case, {'raise': 'x'})


def _cyclic(cells):
    n = len(cells)
    adj = []
    for c in cells:
        vs = [v for _, v in c.get('items', [])] if c['k'] == 'dict' else c.get('items', [v for _, v in c.get('attrs', [])])
        adj.append([v['ref'] for v in vs if isinstance(v, dict)])
    color = [0] * n

    def dfs(u):
        color[u] = 1
        for w in adj[u]:
            if color[w] == 1 or (color[w] == 0 and dfs(w)):
                return True
        color[u] = 2
        return False
    return any(color[i] == 0 and dfs(i) for i in range(n))


def nontrivial(case, out):
    if case.get('kind'):
        return True
    wild = [s for s in case['steps'] if s[0] in 'xX']
    if any(s[0] == 'X' for s in wild) and _cyclic(case['cells']):
        return True
    return bool(wild) and len(case['cells']) >= 3


def classify(case, out):
    if case.get('kind'):
        return case['kind']
    w = sum(1 for s in case['steps'] if s[0] in 'xX')
    tag = 'cyc' if _cyclic(case['cells']) else 'dag'
    if 'raise' in out:
        return 'raise:%s:w%d:%s' % (out['raise'], w, tag)
    if 'ok' in out:
        return 'ok:w%d:%s' % (w, tag)
    return 'timeout'


def python_snippet(case):
    return ('import sys; sys.path.insert(0, "/verif/harness"); sys.path.insert(0, "/repo")\n'
            'import props.c14 as p; print(p.run_impl(%r))' % (case,))
