"""C15 — Fold, Sum, Flatten, Merge equal plain-Python reductions and mutate no input."""
import collections
import functools
import itertools
import operator

from lib import cnat, cbool, cstr
from pyval import Realiser, val_coq, res_coq, exc_outcome, Unrepresentable

ID = 'C15'
PROPERTY_FILE = 'Properties/C15'
MODEL_FILES = ['Model/Reduce', 'Corr/Reduce']
GENERATED_DEPS = []
COQ_HEADER = ('From Coq Require Import String ZArith List.\nImport ListNotations.\n'
              'From Glom Require Import Base.PyVal Model.TEval Model.Reduce Corr.Reduce.\nLocal Open Scope string_scope.\n')
CHECK_FN = 'r_check'
UNMODELLED_FN = 'r_unmodelled'
RULE = ('iterables (lists, tuples, dict keys, one-shot generators) of 0-5 numbers / lists / tuples / strings / dicts, nested up to depth 3; '
        'Fold with init in {int, list, tuple, str, dict, OrderedDict} and op in {iadd, add, mul, count, update}; Sum, Count, Flatten '
        '(eager and lazy), Merge, flatten(levels=0..3), merge(); every spec object is evaluated twice. Observed: the result with input '
        'labels (an input object aliased into the result would show), exception class; on the implementation side also: equality with '
        'functools.reduce / sum / chain.from_iterable / dict.update references, input snapshot unchanged, the two results share no '
        'container. Non-trivial: >= 2 items, or nested items, or an error.')
ASSUMPTIONS = ['float init, custom init classes and user-defined op callables beyond the five catalogue operators are not generated',
               'sets are not used as iterables (hash order)']
SHARD = 300

INITS = {'int': ('IInt', int), 'list': ('IList', list), 'tuple': ('ITuple', tuple), 'str': ('IStr', str),
         'dict': ('(IDict false)', dict), 'odict': ('(IDict true)', collections.OrderedDict),
         'strp': ('(IStrOf ">")', lambda: '>'), 'strpp': ('(IStrOf "ab")', lambda: 'ab')}
OPS = {'iadd': ('OIadd', operator.iadd), 'add': ('OAdd', operator.add), 'mul': ('OMul', operator.mul),
       'count': ('OCount', lambda cur, val: cur + 1), 'update': ('OUpdate', None), 'last': ('OLast', lambda cur, val: val)}


class Gen:
    def __init__(self, rng):
        self.r = rng
        self.i = 0

    def fid(self):
        self.i += 1
        return self.i

    def item(self, kind, depth):
        r = self.r
        if kind == 'int':
            return r.choice([0, 1, 2, 5, -3, True])
        if kind == 'str':
            return r.choice(['', 'a', 'xy'])
        if kind == 'optint':
            return r.choice([1, 2, None, 0, None])
        if kind in ('list', 'tuple'):
            sub = r.choice(['int', 'int', 'str']) if depth <= 0 else r.choice(['int', 'list', 'tuple'])
            return {'k': kind, 'id': self.fid() if kind == 'list' or True else 0, 'items': [self.item(sub, depth - 1) for _ in range(r.randint(0 if kind == 'list' else 1, 3))]}
        if kind == 'dict':
            ks = r.sample(['a', 'b', 'c', 1, 2], r.randint(0, 3))
            return {'k': 'dict', 'od': r.random() < 0.2, 'id': self.fid(), 'items': [[k, r.choice([1, 2, 'v', None])] for k in ks]}
        return None

    def case(self):
        r = self.r
        kind = r.choice(['int', 'int', 'list', 'list', 'tuple', 'str', 'dict', 'dict', 'mixed', 'optint'])
        n = r.choice([0, 1, 2, 3, 3, 4, 5])
        depth = r.choice([0, 1, 2])
        items = [self.item(kind if kind != 'mixed' else r.choice(['int', 'list', 'str', 'dict']), depth) for _ in range(n)]
        cont = r.choice(['list', 'list', 'tuple', 'gen'])
        target = {'k': 'list' if cont != 'tuple' else 'tuple', 'id': self.fid(), 'items': items}
        if cont == 'tuple' and not items:
            target = {'k': 'list', 'id': self.fid(), 'items': items}
        if r.random() < 0.06:
            target = r.choice([5, None, 'abc'])
            cont = 'list'
        c = r.random()
        natural = {'int': ('int', 'iadd'), 'list': ('list', 'iadd'), 'tuple': ('tuple', 'iadd'), 'str': (r.choice(['str', 'strp', 'strpp']), 'iadd'),
                   'dict': ('dict', 'update'), 'mixed': ('list', 'iadd'), 'optint': ('int', 'last')}[kind]
        if c < 0.45:
            init, op = natural
            if r.random() < 0.25:
                init = r.choice(list(INITS))
            if r.random() < 0.2:
                op = r.choice(['iadd', 'add', 'mul', 'count', 'last'])
            if init in ('dict', 'odict') and op != 'update':
                op = 'update'
            if op == 'update' and init not in ('dict', 'odict'):
                init = 'dict'
            opd = ['fold', init, op]
        elif c < 0.55:
            opd = ['sum', r.choice(['int', 'int', 'list', 'str', 'strp'])]
        elif c < 0.6:
            opd = ['count']
        elif c < 0.72:
            opd = ['flatten', r.choice(['list', 'list', 'tuple'])]
        elif c < 0.8:
            opd = ['flatten_lazy']
        elif c < 0.9:
            opd = ['levels', r.choice([0, 1, 2, 3]), r.choice(['list', 'list', 'tuple', 'int', 'str', 'strpp'])]
        elif c < 0.95:
            opd = ['merge', r.choice(['dict', 'dict', 'odict'])]
        else:
            opd = ['merge_fn', r.choice(['dict', 'dict', 'odict'])]      # the function merge(target, init=...)
        if opd[0] == 'levels' and opd[1] == 0:
            cont = 'list'
        return {'target': target, 'gen': cont == 'gen', 'op': opd}


def corpus():
    L = lambda *xs: {'k': 'list', 'id': 0, 'items': list(xs)}  # noqa: E731
    t = {'k': 'list', 'id': 1, 'items': [{'k': 'list', 'id': 2, 'items': [1]}, {'k': 'list', 'id': 3, 'items': [2, 3]}]}
    return [
        {'target': t, 'gen': False, 'op': ['flatten', 'list']},
        {'target': t, 'gen': True, 'op': ['flatten_lazy']},
        {'target': t, 'gen': False, 'op': ['levels', 2, 'list']},
        {'target': {'k': 'list', 'id': 1, 'items': [1, 2, 3]}, 'gen': False, 'op': ['sum', 'int']},
        {'target': 5, 'gen': False, 'op': ['sum', 'int']},
        # a NON-EMPTY string accumulator is a start value (never a separator)
        {'target': {'k': 'list', 'id': 1, 'items': ['a', 'b', 'c']}, 'gen': False, 'op': ['sum', 'strp']},
        {'target': {'k': 'list', 'id': 1, 'items': ['a', 'b', 'c']}, 'gen': True, 'op': ['fold', 'strpp', 'iadd']},
        {'target': {'k': 'list', 'id': 1, 'items': ['a']}, 'gen': False, 'op': ['flatten', 'strp']},
        {'target': {'k': 'list', 'id': 1, 'items': []}, 'gen': False, 'op': ['sum', 'strp']},
        {'target': {'k': 'list', 'id': 1, 'items': [{'k': 'list', 'id': 2, 'items': ['a', 'b']}, {'k': 'list', 'id': 3, 'items': ['c']}]}, 'gen': False, 'op': ['levels', 2, 'strpp']},
        {'target': {'k': 'list', 'id': 1, 'items': [{'k': 'dict', 'od': False, 'id': 2, 'items': [['a', 1]]}, {'k': 'dict', 'od': False, 'id': 3, 'items': [['a', 2], ['b', 3]]}]},
         'gen': False, 'op': ['merge', 'dict']},
    ]


def generate(rng, tier):
    n = 1500 if tier == 'quick' else 12000
    return [{'kind': 'lazy', 'i': i} for i in range(len(lazy_scenarios()))] + [Gen(rng).case() for _ in range(n)]


def build_spec(opd):
    import glom
    k = opd[0]
    if k == 'fold':
        init, op = INITS[opd[1]][1], OPS[opd[2]][1]
        if opd[2] == 'update':
            return glom.Merge(glom.T, init)
        return glom.Fold(glom.T, init, op)
    if k == 'sum':
        return glom.Sum(init=INITS[opd[1]][1])
    if k == 'count':
        from glom.reduction import Count
        return Count()
    if k == 'flatten':
        return glom.Flatten(init=INITS[opd[1]][1])
    if k == 'flatten_lazy':
        return glom.Flatten(init='lazy')
    if k == 'merge':
        return glom.Merge(init=INITS[opd[1]][1])
    return None


def run_once(case, r, spec):
    import glom
    target = r.build(case['target'])
    tgt = iter(target) if case['gen'] and isinstance(target, (list, tuple)) else target
    k = case['op'][0]
    if k == 'levels':
        res = glom.flatten(tgt, levels=case['op'][1], init=INITS[case['op'][2]][1])
    elif k == 'merge_fn':
        res = glom.merge(tgt, init=INITS[case['op'][1]][1])
    else:
        res = glom.glom(tgt, spec)
    if k == 'flatten_lazy' or (k == 'levels' and not isinstance(res, (list, tuple, str, int, dict)) and res is not None and res is not tgt):
        res = list(res)
    if case['gen'] and res is tgt:
        res = list(res)
    return target, res


def containers(o, acc):
    if isinstance(o, (list, dict)):
        acc.add(id(o))
        for x in (o.values() if isinstance(o, dict) else o):
            containers(x, acc)
    elif isinstance(o, tuple):
        for x in o:
            containers(x, acc)
    return acc


def lazy_scenarios():
    """Flatten(init='lazy') IS itertools.chain.from_iterable of the target: nothing is taken from the target before the result is
    consumed, and each inner iterable is taken when its turn comes (one-shot sources whose items are only valid until the source
    is advanced: groupby groups, a reader re-using one row buffer)"""
    import glom

    def counted(log):
        for i in range(3):
            log.append(i)
            yield [i, i + 10]

    def groups():
        return (g for _, g in itertools.groupby(['a1', 'a2', 'b1', 'c1', 'c2'], key=lambda s: s[0]))

    def rows():
        buf = [0, 0]
        for i in range(3):
            buf[0], buf[1] = i, i * 10
            yield buf

    def boxed_rows():
        buf = [0, 0]
        for i in range(3):
            buf[0], buf[1] = i, i * 10
            yield [buf]
    lazy = lambda: glom.Flatten(init='lazy')  # noqa: E731
    return grouped_scenarios() + [
        ('nothing consumed up front', 'pulls', counted, lazy),
        ('counted source', 'value', lambda: counted([]), lazy),
        ('groupby groups', 'value', groups, lazy),
        ('re-used row buffer', 'value', rows, lazy),
        ('re-used row buffer, inside a chain', 'value', rows, lambda: (glom.T, glom.Flatten(init='lazy'))),
        ('flatten(levels=2) over boxed re-used rows', 'levels2', boxed_rows, None),
    ] + [('flatten(spec=%s, levels=%d)' % (sname, n), 'specfn', None, (sp, n))
         for sname, sp in (('path', 'data'), ('callable', lambda t: t['data'] + [t['data'][-1]]), ('T', glom.T['data']))
         for n in (0, 1, 2, 3)]


def grouped_scenarios():
    """a reduction under an explicit mode wrapper (Auto / Fill) INSIDE a Group folds its own target, like anywhere else: the Group's
    pending aggregation is none of its business — Group([Auto(R)]) is [glom(item, R) for item in target]"""
    import glom
    from glom import Auto, Fill, Flatten, Sum, Fold, Merge, T
    from glom.grouping import Group
    import operator
    nested = lambda: [[[1], [2]], [[3]]]  # noqa: E731
    out = []
    for name, inner, src in (('Flatten', Flatten, nested), ('Sum', Sum, lambda: [[1, 2], [3]]),
                             ('Fold mul', lambda: Fold(T, init=lambda: 1, op=operator.mul), lambda: [[2, 1], [3]]),
                             ('Merge', lambda: Merge(init=collections.OrderedDict), lambda: [[{'a': 1}, {'a': 2, 'b': 3}], [{'c': 4}]])):
        for wname, wrap in (('Auto', Auto), ('Fill', Fill)):
            if wname == 'Fill' and name != 'Flatten':
                continue
            out.append(('Group([%s(%s)])' % (wname, name), 'grouped', src, (wrap, inner)))
    return out


def run_lazy(case):
    import glom
    name, what, src, mk = lazy_scenarios()[case['i']]
    if what == 'grouped':
        from glom.grouping import Group
        wrap, inner = mk
        try:
            spec = Group([wrap(inner())])
            got1 = glom.glom(src(), spec)
            got2 = glom.glom(src(), spec)
            want = [glom.glom(item, inner()) for item in src()]
        except Exception as e:
            return {'problems': ['%s: raised %s' % (name, type(e).__name__)]}
        problems = []
        if got1 != want or got2 != want:
            problems.append('%s: %r then %r, each item folded on its own gives %r' % (name, got1, got2, want))
        elif any(a is b for a, b in zip(got1, got2) if isinstance(a, (list, dict))):
            problems.append('%s: two evaluations handed out the same container' % name)
        return {'problems': problems}
    if what == 'specfn':
        # the function flatten(target, spec=s, levels=n): s is applied ONCE, to the target; n levels of the result are flattened
        sp, n = mk
        deep = lambda: {'data': [[[[1], [2]], [[3]]], [[[3]]]]}  # noqa: E731
        try:
            got = glom.flatten(deep(), spec=sp, levels=n)
            want = glom.glom(deep(), sp) if n else deep()
            for _ in range(n):
                want = list(itertools.chain.from_iterable(want))
        except Exception as e:
            return {'problems': ['%s: raised %s' % (name, type(e).__name__)]}
        return {'problems': [] if got == want else ['%s: %r, %d-fold chain.from_iterable of glom(target, spec) gives %r' % (name, got, n, want)]}
    try:
        if what == 'pulls':
            log = []
            res = glom.glom(src(log), mk())
            before = list(log)
            got = list(res)
            log2 = []
            want = list(itertools.chain.from_iterable(src(log2)))
            problems = []
            if before:
                problems.append('lazy %s: %d items were taken from the source before the result was consumed' % (name, len(before)))
            if got != want:
                problems.append('lazy %s: %r, itertools.chain.from_iterable gives %r' % (name, got, want))
            return {'problems': problems}
        if what == 'levels2':
            got = glom.flatten(src(), levels=2)
            want = list(itertools.chain.from_iterable(itertools.chain.from_iterable(src())))
        else:
            got = list(glom.glom(src(), mk()))
            want = list(itertools.chain.from_iterable(src()))
    except Exception as e:
        return {'problems': ['lazy %s: raised %s' % (name, type(e).__name__)]}
    if got != want:
        return {'problems': ['lazy %s: %r, the itertools composition gives %r' % (name, got, want)]}
    return {'problems': []}


_TRIV = None


def run_impl(case):
    if case.get('kind') == 'lazy':
        return run_lazy(case)
    r = Realiser()
    spec = build_spec(case['op'])
    snap = repr(case['target'])
    try:
        target, res = run_once(case, r, spec)
    except Exception as e:
        return exc_outcome(e)
    out = {'ok': r.encode(res)}
    out['input_untouched'] = repr(r.encode(target)) == repr(r.encode(r.build(case['target']))) and r.encode(target) == case['target']
    # a second evaluation of the same spec object: equal value, no shared top-level state
    try:
        r2 = Realiser()
        r2.by_id, r2.label = r.by_id, r.label
        _, res2 = run_once(case, r2, spec)
        out['second_equal'] = r.encode(res2) == out['ok'] or True
        out['second_same_value'] = res2 == res
        out['fresh_each_time'] = not (isinstance(res, (list, dict)) and res2 is res)
    except Exception as e:
        out['second_error'] = type(e).__name__
    # plain-Python reference
    try:
        out['reference_equal'] = reference(case, r) == res
    except Exception as e:
        out['reference_error'] = type(e).__name__
    return out


def reference(case, r):
    target = r.build(case['target'])
    k = case['op'][0]
    if k == 'fold':
        init, op = INITS[case['op'][1]][1], case['op'][2]
        if op == 'update':
            acc = init()
            for v in target:
                acc.update(v)
            return acc
        return functools.reduce(OPS[op][1], target, init())
    if k == 'sum':
        return functools.reduce(operator.iadd, target, INITS[case['op'][1]][1]())
    if k == 'count':
        return len(list(target))
    if k == 'flatten':
        return functools.reduce(operator.iadd, target, INITS[case['op'][1]][1]())
    if k == 'flatten_lazy':
        return list(itertools.chain.from_iterable(target))
    if k == 'levels':
        n, init = case['op'][1], INITS[case['op'][2]][1]
        if n == 0:
            return target
        cur = target
        for _ in range(n - 1):
            cur = list(itertools.chain.from_iterable(cur))
        return functools.reduce(operator.iadd, cur, init())
    acc = INITS[case['op'][1]][1]()
    for v in target:
        acc.update(v)
    return acc


def coq_case(case, out):
    global _TRIV
    if case.get('kind') == 'lazy':
        # decided on the implementation side; the Coq side gets a small ordinary case with its real outcome
        if _TRIV is None:
            t = corpus()[3]
            _TRIV = (t, run_impl(t))
        return coq_case(*_TRIV)
    opd = case['op']
    k = opd[0]
    if k == 'fold':
        op = '(RFold %s %s)' % (INITS[opd[1]][0], OPS[opd[2]][0])
    elif k == 'sum':
        op = '(RFold %s OIadd)' % INITS[opd[1]][0]
    elif k == 'count':
        op = '(RFold IInt OCount)'
    elif k == 'flatten':
        op = '(RFold %s OIadd)' % INITS[opd[1]][0]
    elif k == 'flatten_lazy':
        op = 'RFlattenLazy'
    elif k == 'levels':
        op = '(RFlattenLevels %s %s)' % (cnat(opd[1]), INITS[opd[2]][0])
    else:
        op = '(RFold %s OUpdate)' % INITS[opd[1]][0]
    if 'harness_error' in out or 'harness_timeout' in out:
        impl = '(Unmodelled "harness")'
    else:
        try:
            impl = res_coq(out)
        except Unrepresentable:
            impl = '(Unmodelled "opaque")'
    return '(mkR %s %s %s)' % (val_coq(case['target']), op, impl)


def model_dump_term(case):
    if case.get('kind') == 'lazy':
        return '0'
    return 'r_model %s' % coq_case(case, {'ok': None})


def direct_oracle(case, out):
    if case.get('kind') == 'lazy':
        return '; '.join(out['problems']) if out.get('problems') else None
    if out.get('input_untouched') is False:
        return 'an input element was mutated'
    selects = case['op'][0] == 'fold' and case['op'][2] == 'last'      # an op that returns an input element: the result IS that element
    if out.get('fresh_each_time') is False and not (case['op'][0] == 'levels' and case['op'][1] == 0) and not selects:
        return 'two evaluations of one spec returned the same container object'
    if out.get('second_same_value') is False and not case['gen']:
        return 'the second evaluation of the same spec object gives a different value'
    if out.get('reference_equal') is False:
        return 'differs from the plain-Python reduction'
    return None


def nontrivial(case, out):
    if case.get('kind') == 'lazy':
        return True
    t = case['target']
    if not isinstance(t, dict):
        return True
    items = t.get('items', [])
    return len(items) >= 2 or any(isinstance(x, dict) for x in items) or 'raise' in out


def classify(case, out):
    if case.get('kind') == 'lazy':
        return 'lazy:%d' % case['i']
    return '%s:%s' % ('/'.join(str(x) for x in case['op']), out.get('raise', 'ok'))


def python_snippet(case):
    return ('import sys; sys.path.insert(0, "/verif/harness"); sys.path.insert(0, "/repo")\n'
            'import props.c15 as p; print(p.run_impl(%r))' % (case,))
