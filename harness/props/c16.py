"""C16 — Group builds exactly the buckets and aggregates of a hand-written loop."""
from fractions import Fraction

import lib
from lib import cz, cnat, clist
from pyval import Realiser, val_coq, res_coq, exc_outcome, Unrepresentable, fn_of, fn_coq

ID = 'C16'
PROPERTY_FILE = 'Properties/C16'
MODEL_FILES = ['Model/Group', 'Spec/GroupSpec', 'Corr/Group']
GENERATED_DEPS = []
COQ_HEADER = ('From Coq Require Import String ZArith List.\nImport ListNotations.\n'
              'From Glom Require Import Base.PyVal Model.TEval Model.Reduce Model.Group Spec.GroupSpec Corr.Group.\nLocal Open Scope string_scope.\n')
CHECK_FN = 'g_check_both'
UNMODELLED_FN = 'g_unmodelled'
RULE = ('item sequences of 0-9 small ints (also lists / dicts for Flatten / Merge leaves); Group spec trees of 0-3 single-key dict '
        'levels over key functions {x % 2, x // d, T, SKIP-if-odd, constant} ending in [value function] or a leaf '
        'aggregator {First, Max, Min, Sum, Count, Avg, Flatten, Merge}, optionally under a top-level Limit(n); every spec object is '
        'evaluated twice in a row, once nested in a list spec and once as the sub-spec of a Merge / Flatten / Sum aggregating for an outer Group. Each outcome is compared with the code-shaped model AND with the '
        'hand-written bucketing loop of Spec/GroupSpec.v. Non-trivial: >= 1 key level with >= 2 distinct keys, or a SKIP/STOP key.')
ASSUMPTIONS = ['multi-key dict levels share one accumulator dict in the code and are outside the property (single-key levels only)',
               'Sample (random) is not in the property', 'Avg is compared as the exact reduced fraction of the float result']
SHARD = 300

KEYS = {'parity': ('KParity', lambda x: x % 2), 'self': ('KSelf', None), 'skipodd': ('KSkipOdd', None), 'stopneg': ('KStopNeg', None)}
AGGS = {'First': 'AFirst', 'Max': 'AMax', 'Min': 'AMin', 'Sum': 'ASum', 'Count': 'ACount', 'Avg': 'AAvg', 'Flatten': 'AFlatten', 'Merge': 'AMerge'}


def corpus():
    return [
        {'items': [9, 2, 1, 5], 'spec': ['Dict', ['div', 4], ['Agg', 'First']]},                       # F18
        {'items': [0, 2, 4, 1, 3], 'spec': ['Dict', ['parity'], ['Limit', 2, ['List', ['Fn', ['id']]]]]},   # F18 (Limit under a key)
        {'items': [1, 2, 3, 4, 5], 'spec': ['Dict', ['parity'], ['List', ['Fn', ['id']]]]},
        {'items': [1, 2, 3, 4, 5], 'spec': ['Dict', ['parity'], ['Dict', ['div', 2], ['Agg', 'Max']]]},
        {'items': [1, 2, 3, 4, 5], 'spec': ['Limit', 3, ['Dict', ['parity'], ['List', ['Fn', ['id']]]]]},
        {'items': [1, 2, 3], 'spec': ['Agg', 'Avg']},
        {'items': [], 'spec': ['Dict', ['parity'], ['Agg', 'Sum']]},
        {'items': 'F11', 'spec': ['Dict', ['self'], ['List', ['Fn', ['id']]]]},                        # F11: bucket key == id(spec)
    ]


class Gen:
    def __init__(self, rng):
        self.r = rng

    def key(self):
        r = self.r
        return r.choice([['parity'], ['parity'], ['div', r.choice([2, 3, 4])], ['div', 2], ['self'], ['skipodd'], ['const', 7]])

    def leaf(self):
        r = self.r
        c = r.random()
        if c < 0.4:
            return ['List', ['Fn', r.choice([['id'], ['id'], ['inc'], ['dbl'], ['skip_if_odd']])]]
        if c < 0.5:
            return ['Fn', r.choice([['id'], ['inc'], ['skip_if_odd']])]
        if c < 0.6:
            return ['Agg', 'SumFrom', r.choice([10, 3, -2, 1])]        # Sum(init=lambda: z): a start that is not the neutral element
        return ['Agg', r.choice(['First', 'Max', 'Min', 'Sum', 'Count', 'Avg', 'Max', 'Sum'])]

    def spec(self, levels):
        if levels == 0:
            return self.leaf()
        return ['Dict', self.key(), self.spec(levels - 1)]

    def case(self):
        r = self.r
        s = self.spec(r.choice([0, 1, 1, 2, 2, 3]))
        if r.random() < 0.15:
            s = ['Limit', r.choice([0, 1, 2, 3, 5]), s]
        elif r.random() < 0.04:
            s = ['Limit', r.choice([0, 1, 2, 3, 5]), ['List', ['Fn', ['id']]], 'default']     # Limit(n): the sub-spec defaults to [T]
        n = r.choice([0, 1, 2, 3, 4, 5, 6, 7, 9])
        pool = r.choice([[0, 1, 2, 3, 4, 5, 6, 7, 8, 9, 10, -1, -2]] * 3 + [[-3, -2, -1, 0, 0, 1], [-4, -2, 0, 0, -6]])   # falsy running aggregates
        items = [r.choice(pool) for _ in range(n)]
        return {'items': items, 'spec': s}


def generate(rng, tier):
    g = Gen(rng)
    n = 1500 if tier == 'quick' else 12000
    out = [g.case() for _ in range(n)]
    for _ in range(n // 10):
        # Flatten / Merge leaves
        if rng.random() < 0.5:
            items = [{'k': 'list', 'id': i + 1, 'items': [rng.choice([1, 2, 3]) for _ in range(rng.randint(0, 2))]} for i in range(rng.randint(0, 4))]
            out.append({'items': items, 'spec': ['Agg', 'Flatten']})
        else:
            items = [{'k': 'dict', 'od': False, 'id': i + 1, 'items': [[rng.choice(['a', 'b', 'c']), rng.choice([1, 2])]]} for i in range(rng.randint(0, 4))]
            out.append({'items': items, 'spec': ['Agg', 'Merge']})
    return out


def keyfn(k):
    import glom
    if k[0] == 'parity':
        return lambda x: x % 2
    if k[0] == 'div':
        d = k[1]
        return lambda x: x // d
    if k[0] == 'self':
        return glom.T
    if k[0] == 'skipodd':
        return lambda x: glom.SKIP if x % 2 == 1 else x
    if k[0] == 'stopneg':
        return lambda x: glom.STOP if x < 0 else x % 3
    z = k[1]
    return lambda x: z


def build(s):
    import glom
    from glom import grouping, reduction
    k = s[0]
    if k == 'Dict':
        return {keyfn(s[1]): build(s[2])}
    if k == 'List':
        return [build(s[1])]
    if k == 'Fn':
        return fn_of(s[1])
    if k == 'Limit':
        return grouping.Limit(s[1]) if len(s) > 3 else grouping.Limit(s[1], build(s[2]))
    a = s[1]
    if a in ('First', 'Max', 'Min', 'Avg'):
        return getattr(grouping, a)()
    if a == 'SumFrom':
        z = s[2]
        return glom.Sum(init=lambda: z)
    if a == 'Sum':
        return glom.Sum()
    if a == 'Count':
        return reduction.Count()
    if a == 'Flatten':
        return glom.Flatten()
    return glom.Merge()


def defloat(ir):
    if isinstance(ir, dict) and 'float' in ir:
        f = Fraction(float(ir['float'])).limit_denominator(10 ** 6)
        return {'k': 'tuple', 'id': 0, 'items': [f.numerator, f.denominator]}
    if isinstance(ir, dict) and 'items' in ir:
        d = dict(ir)
        d['items'] = [[defloat(a), defloat(b)] if ir['k'] == 'dict' else defloat(x)
                      for x in ir['items'] for a, b in ([x] if ir['k'] == 'dict' else [(None, None)])] \
            if ir['k'] == 'dict' else [defloat(x) for x in ir['items']]
        return d
    return ir


def run_impl(case):
    import glom
    from glom.grouping import Group
    r = Realiser()
    spec = build(case['spec'])
    gspec = Group(spec)
    if case['items'] == 'F11':
        ident = id(spec)
        items = [ident, 1, ident]
    else:
        ident = None
        items = [r.build(x) for x in case['items']]

    def enc(res):
        e = defloat(r.encode(res))
        if ident is not None:
            e = _replace(e, ident, 777)
        return e
    try:
        res = glom.glom(items, gspec)
        out = {'ok': enc(res)}
    except Exception as e:
        out = exc_outcome(e)
    # re-use: the same Group object again, and nested inside a list spec over two copies of the input — after the caller has
    # scribbled over the first result (results of separate evaluations share no state)
    if 'ok' in out:
        _poison(res)
    try:
        res2 = glom.glom(items, gspec)
        out['second_same'] = ('ok' in out and enc(res2) == out['ok'])
    except Exception as e:
        out['second_same'] = ('raise' in out and type(e).__name__ == out['raise'])
    try:
        res3 = glom.glom([items, items], [gspec])
        out['nested_same'] = ('ok' in out and [enc(x) for x in res3] == [out['ok'], out['ok']])
    except Exception as e:
        out['nested_same'] = 'raise' in out
    # nested evaluation proper: the Group spec as the sub-spec of an aggregator that is itself aggregating for an outer Group
    if 'ok' in out and ident is None:
        try:
            first = glom.glom(items, gspec)
            if isinstance(first, dict):
                got = glom.glom([items, items], Group(glom.Merge(gspec)))
                want = dict(first)
            elif isinstance(first, list):
                got = glom.glom([items, items], Group(glom.Flatten(gspec)))
                want = first + first
            elif type(first) is int:
                got = glom.glom([items, items], Group(glom.Sum(gspec)))
                want = 2 * first
            else:
                got = want = None
            out['inside_aggregator_same'] = (got == want)
            if got != want:
                out['inside_aggregator'] = [repr(got)[:200], repr(want)[:200]]
        except Exception as e:
            out['inside_aggregator_same'] = False
            out['inside_aggregator'] = [type(e).__name__, 'the stand-alone results combined']
    return out


def _poison(res, depth=0):
    if depth > 6:
        return
    if isinstance(res, dict):
        for v in list(res.values()):
            _poison(v, depth + 1)
        res['__poison__'] = ['left over']
    elif isinstance(res, list):
        for v in list(res):
            _poison(v, depth + 1)
        res.append('left over')


def _replace(e, a, b):
    if e == a and isinstance(e, int):
        return b
    if isinstance(e, dict) and 'items' in e:
        d = dict(e)
        d['items'] = [[_replace(x[0], a, b), _replace(x[1], a, b)] if e['k'] == 'dict' else _replace(x, a, b) for x in e['items']]
        return d
    return e


def key_coq(k):
    if k[0] == 'parity':
        return 'KParity'
    if k[0] == 'div':
        return '(KDiv %s)' % cz(k[1])
    if k[0] == 'self':
        return 'KSelf'
    if k[0] == 'skipodd':
        return 'KSkipOdd'
    if k[0] == 'stopneg':
        return 'KStopNeg'
    return '(KConst %s)' % cz(k[1])


def spec_coq(s):
    k = s[0]
    if k == 'Dict':
        return '(GDict %s %s)' % (key_coq(s[1]), spec_coq(s[2]))
    if k == 'List':
        return '(GList %s)' % spec_coq(s[1])
    if k == 'Fn':
        return '(GFn %s)' % fn_coq(s[1])
    if k == 'Limit':
        return '(GLimit %s %s)' % (cnat(s[1]), spec_coq(s[2]))
    if s[1] == 'SumFrom':
        return '(GAgg (ASumFrom %s))' % cz(s[2])
    return '(GAgg %s)' % AGGS[s[1]]


def coq_case(case, out):
    items = [777, 1, 777] if case['items'] == 'F11' else case['items']
    target = {'k': 'list', 'id': 0, 'items': items}
    if 'harness_error' in out or 'harness_timeout' in out:
        impl = '(Unmodelled "harness")'
    else:
        try:
            impl = res_coq(out)
        except Unrepresentable:
            impl = '(Unmodelled "opaque")'
    return '(mkG %s %s %s)' % (val_coq(target), spec_coq(case['spec']), impl)


def model_dump_term(case):
    c = coq_case(case, {'ok': None})
    return '(g_model %s, g_ref %s)' % (c, c)


def _stop_leaf_under_key(s, under=False):
    k = s[0]
    if k == 'Dict':
        return _stop_leaf_under_key(s[2], True) or (under and s[1][0] == 'stopneg')
    if k == 'List':
        return _stop_leaf_under_key(s[1], under)
    if k == 'Limit':
        return under or _stop_leaf_under_key(s[2], under)
    if k == 'Agg':
        return under and s[1] == 'First'
    if k == 'Fn':
        return under and s[1][0] == 'stop_if_neg'
    return False


def matches_finding(f, case, out):
    """a mismatch is the recorded finding iff the spec has the finding's syntactic pattern AND the implementation still
    equals the code-shaped model (so only the comparison with the reference loop fails)"""
    if f['id'] == 'F18' and _stop_leaf_under_key(case['spec']):
        return _model_agrees(case, out)
    if f['id'] == 'F11' and case['items'] == 'F11':
        return True
    return False


def _model_agrees(case, out):
    term = coq_case(case, out)
    mism, errs = lib.run_shards(ID + '_kf', COQ_HEADER, 'g_check', [term])
    return not mism and not errs


def direct_oracle(case, out):
    if out.get('second_same') is False:
        return 'evaluating the same Group spec object a second time gives a different result (accumulator state survived)'
    if out.get('nested_same') is False and not (isinstance(out.get('ok'), dict) and 'sent' in out['ok']):
        return 'the Group spec nested in a list spec does not give the stand-alone result for each element'
    if out.get('inside_aggregator_same') is False:
        return ('the Group spec evaluated inside an outer Group\'s aggregator does not give the stand-alone results combined: %r'
                % (out.get('inside_aggregator'),))
    return None


def _levels(s):
    return 1 + _levels(s[2]) if s[0] == 'Dict' else (_levels(s[2]) if s[0] == 'Limit' else 0)


def nontrivial(case, out):
    return _levels(case['spec']) >= 1 and (case['items'] == 'F11' or len(set(case['items'])) >= 2)


def classify(case, out):
    return 'levels%d:%s' % (_levels(case['spec']), out.get('raise', 'ok'))


def python_snippet(case):
    return ('import sys; sys.path.insert(0, "/verif/harness"); sys.path.insert(0, "/repo")\n'
            'import props.c16 as p; print(p.run_impl(%r))' % (case,))
