"""C17 — Iter pipelines equal the itertools composition, stay lazy, never mutate specs."""
import itertools

from lib import cnat, cz, cstr, clist


def copt(x):
    return 'None' if x is None else '(Some %s)' % x
import pyval

ID = 'C17'
PROPERTY_FILE = 'Properties/C17'
MODEL_FILES = ['Model/Iter', 'Corr/Iter', 'Spec/IterSpec']
GENERATED_DEPS = []
COQ_HEADER = ('From Coq Require Import String ZArith List.\nImport ListNotations.\n'
              'From Glom Require Import Base.PyVal Model.TEval Model.Reduce Model.Iter Corr.Iter.\nLocal Open Scope string_scope.\n')
CHECK_FN = 'it_check'
UNMODELLED_FN = 'it_unmodelled'
RULE = ('Iter(subspec, sentinel) pipelines of 0-4 stages over map, filter, slice/limit, takewhile, dropwhile, chunked (with and '
        'without fill), windowed, split (sep, maxsplit), unique, flatten with small parameters and catalogue callbacks (including ones '
        'that raise, return SKIP / STOP / None at a chosen item); sources: instrumented iterators over finite lists of ints / None / '
        'nested lists, itertools.count-like and cycle-like infinite sources (an over-pull guard raises after 200 pulls); observed by '
        'taking k = 1..8 items or draining: the items, how it ended (got k / exhausted / exception class), and the number of items '
        'pulled from the source at that moment; first(key, default) and all() through glom(); builder sequences that derive several '
        'specs from a re-used prefix spec and then evaluate every spec of the pool. On the implementation side also: the same '
        'observation on the plain composition of itertools / boltons iterators; repr, _iter_stack identity and contents of every '
        'earlier spec after each builder call; the same for Invoke.constants / specs / star. Non-trivial: >= 2 stages, or an '
        'infinite source, or an exception, or a builder sequence.')
ASSUMPTIONS = ['windowed_iter primes itself at glomit time (before the first item is requested): pull counts are compared from the first '
               'requested item on, and pipelines with a windowed stage before a stage that is exhausted at start are reported unmodelled',
               'callbacks are the deterministic catalogue callables; subspecs that are paths or nested Iter specs are not generated here',
               'split(maxsplit=0), chunked(0), windowed(0) and slice arguments with start > stop are reported unmodelled / not generated']
SHARD = 250

MAXPULL = 200


class Overpull(BaseException):
    pass


class Src:
    """an instrumented one-shot iterator"""

    def __init__(self, desc):
        self.pulled = 0
        kind = desc[0]
        if kind == 'list':
            self.it = iter([thaw(x) for x in desc[1]])
        elif kind == 'count':
            self.it = itertools.count(desc[1], desc[2])
        else:
            self.it = itertools.cycle([thaw(x) for x in desc[1]]) if desc[1] else iter([])

    def __iter__(self):
        return self

    def __next__(self):
        if self.pulled >= MAXPULL:
            raise Overpull()
        item = next(self.it)
        self.pulled += 1
        return item


def thaw(x):
    if isinstance(x, list):
        return [thaw(y) for y in x]
    if isinstance(x, dict) and 't' in x:
        return tuple(thaw(y) for y in x['t'])
    return x


# ---------- callbacks ----------
def _raise_at(z):
    def f(x):
        if x == z:
            raise ValueError('planted')
        return x
    return f


def cb_py(d):
    import glom
    k = d[0]
    if k == 'T':
        return glom.T
    if k == 'fn':
        return pyval.fn_of(d[1])
    z = d[1]
    if k == 'raise_at':
        return _raise_at(z)
    if k == 'mod':
        return lambda x: x % z
    if k == 'lt':
        return lambda x: x < z
    if k == 'skip_at':
        return lambda x: glom.SKIP if x == z else x
    if k == 'stop_at':
        return lambda x: glom.STOP if x == z else x
    if k == 'none_at':
        return lambda x: None if x == z else x
    raise ValueError(d)


def cb_plain(d):
    """the callback as a plain function (for the itertools reference)"""
    f = cb_py(d)
    if d[0] == 'T':
        return lambda x: x
    return f


def cb_coq(d):
    k = d[0]
    if k == 'T':
        return 'CT'
    if k == 'fn':
        return '(CFn %s)' % pyval.fn_coq(d[1])
    return '(%s %s)' % ({'raise_at': 'CRaiseAt', 'mod': 'CMod', 'lt': 'CLt', 'skip_at': 'CSkipAt', 'stop_at': 'CStopAt',
                         'none_at': 'CNoneAt'}[k], cz(d[1]))


# ---------- values ----------
def enc_coq(v):
    import glom
    if v is None:
        return 'VNone'
    if v is glom.SKIP:
        return 'VSkip'
    if v is glom.STOP:
        return 'VStop'
    if isinstance(v, bool):
        return '(VBool %s)' % ('true' if v else 'false')
    if isinstance(v, int):
        if abs(v) > 10 ** 12:
            raise pyval.Unrepresentable('big int')
        return '(VInt %s)' % cz(v)
    if isinstance(v, str):
        return '(VStr %s)' % cstr(v)
    if isinstance(v, list):
        return '(VList 0 %s)' % clist([enc_coq(x) for x in v])
    if isinstance(v, tuple):
        return '(VTuple 0 %s)' % clist([enc_coq(x) for x in v])
    raise pyval.Unrepresentable(type(v).__name__)


def freeze(v):
    """JSON-able snapshot of an output value"""
    import glom
    if v is glom.SKIP:
        return {'sk': 1}
    if v is glom.STOP:
        return {'st': 1}
    if isinstance(v, list):
        return [freeze(x) for x in v]
    if isinstance(v, tuple):
        return {'t': [freeze(x) for x in v]}
    if v is None or isinstance(v, (bool, int, str)):
        return v
    return {'opaque': type(v).__name__}


def unfreeze(v):
    import glom
    if isinstance(v, dict):
        if 'sk' in v:
            return glom.SKIP
        if 'st' in v:
            return glom.STOP
        if 't' in v:
            return tuple(unfreeze(x) for x in v['t'])
        raise pyval.Unrepresentable('opaque')
    if isinstance(v, list):
        return [unfreeze(x) for x in v]
    return v


def item_coq(x):
    return enc_coq(thaw(x))


def src_coq(s):
    if s[0] == 'list':
        return '(SrcList %s)' % clist([item_coq(x) for x in s[1]])
    if s[0] == 'count':
        return '(SrcCount %s %s)' % (cz(s[1]), cz(s[2]))
    return '(SrcCycle %s)' % clist([item_coq(x) for x in s[1]])


SENT = {'stop': 'VStop', 'none': 'VNone', 'false': '(VBool false)'}


def sentinel_py(s):
    import glom
    return {'stop': glom.STOP, 'none': None, 'false': False}[s]


def stage_coq(st):
    k = st[0]
    if k in ('map', 'filter', 'takewhile', 'dropwhile', 'unique'):
        return '(%s %s)' % ({'map': 'SMap', 'filter': 'SFilter', 'takewhile': 'STakeWhile', 'dropwhile': 'SDropWhile',
                             'unique': 'SUnique'}[k], cb_coq(st[1]))
    if k == 'slice':
        start, stop, step = norm_slice(st[1])
        return '(SSlice %s %s %s)' % (cnat(start), copt(None if stop is None else cnat(stop)), cnat(step))
    if k == 'limit':
        return '(SSlice 0 (Some %s) 1)' % cnat(st[1])
    if k == 'chunked':
        return '(SChunked %s %s)' % (cnat(st[1]), copt(None if len(st) < 3 else item_coq(st[2])))
    if k == 'windowed':
        return '(SWindowed %s)' % cnat(st[1])
    if k == 'split':
        return '(SSplit %s %s)' % (item_coq(st[1]), copt(None if st[2] is None else cnat(st[2])))
    if k == 'flatten':
        return 'SFlatten'
    raise ValueError(st)


def norm_slice(args):
    if len(args) == 1:
        return 0, args[0], 1
    start = args[0] or 0
    stop = args[1]
    step = (args[2] if len(args) > 2 else None) or 1
    return start, stop, step


def stages_coq(case):
    return clist(['(SBase %s %s)' % (cb_coq(case['sub']), SENT[case['sentinel']])] + [stage_coq(s) for s in case['stages']])


def apply_stage(spec, st):
    k = st[0]
    if k in ('map', 'filter', 'takewhile', 'dropwhile', 'unique'):
        return getattr(spec, k)(cb_py(st[1]))
    if k == 'slice':
        return spec.slice(*st[1])
    if k == 'limit':
        return spec.limit(st[1])
    if k == 'chunked':
        return spec.chunked(st[1]) if len(st) < 3 else spec.chunked(st[1], fill=thaw(st[2]))
    if k == 'windowed':
        return spec.windowed(st[1])
    if k == 'split':
        return spec.split(sep=thaw(st[1]), maxsplit=st[2])
    if k == 'flatten':
        return spec.flatten()
    raise ValueError(st)


def new_iter(sub, sentinel):
    import glom
    kw = {} if sentinel == 'stop' else {'sentinel': sentinel_py(sentinel)}
    if sub[0] == 'T':
        return glom.Iter(**kw)
    return glom.Iter(cb_py(sub), **kw)


def build_spec(case):
    spec = new_iter(case['sub'], case['sentinel'])
    for st in case['stages']:
        spec = apply_stage(spec, st)
    return spec


def exc_name(e):
    n = type(e).__name__
    if n.startswith('GlomError.wrap(') and n.endswith(')'):
        n = n[len('GlomError.wrap('):-1]
    return n


def observe(it, src, k):
    """take k items (k None: drain) from iterator it; returns [outs, ending, pulls]"""
    outs = []
    ending = 'gotk'
    try:
        if k is None:
            for x in it:
                outs.append(x)
            ending = 'exhausted'
        else:
            for _ in range(k):
                try:
                    outs.append(next(it))
                except StopIteration:
                    ending = 'exhausted'
                    break
    except Overpull:
        ending = 'fuel'
    except Exception as e:
        ending = 'raise:' + exc_name(e)
    return [[freeze(x) for x in outs], ending, src.pulled]


def reference_iter(case, src):
    """the plain composition of itertools / boltons iterators the property names"""
    import glom
    from boltons.iterutils import chunked_iter, windowed_iter, split_iter, unique_iter
    sub = cb_plain(case['sub'])
    sentinel = sentinel_py(case['sentinel'])

    def base():
        for t in src:
            y = sub(t)
            if y is glom.SKIP:
                continue
            if y is sentinel or y is glom.STOP:
                return
            yield y
    it = base()
    for st in case['stages']:
        k = st[0]
        if k == 'map':
            it = map(cb_plain(st[1]), it)
        elif k == 'filter':
            f = cb_plain(st[1])
            it = filter(lambda t, f=f: bool(f(t)) and t is not glom.SKIP, it)
        elif k == 'takewhile':
            it = itertools.takewhile(cb_plain(st[1]), it)
        elif k == 'dropwhile':
            it = itertools.dropwhile(cb_plain(st[1]), it)
        elif k == 'unique':
            it = unique_iter(it, key=cb_plain(st[1]))
        elif k == 'slice':
            it = itertools.islice(it, *st[1])
        elif k == 'limit':
            it = itertools.islice(it, st[1])
        elif k == 'chunked':
            it = chunked_iter(it, st[1]) if len(st) < 3 else chunked_iter(it, st[1], fill=thaw(st[2]))
        elif k == 'windowed':
            it = windowed_iter(it, st[1])
        elif k == 'split':
            it = split_iter(it, sep=thaw(st[1]), maxsplit=st[2])
        elif k == 'flatten':
            it = itertools.chain.from_iterable(it)
    return iter(it)


def snapshot_spec(spec):
    return (repr(spec), id(spec._iter_stack), tuple((n, repr(a)) for n, a, _ in spec._iter_stack), repr(spec.subspec), repr(spec.sentinel))


def run_impl(case):
    import glom
    kind = case['kind']
    out = {}
    if kind == 'take':
        spec = build_spec(case)
        src = Src(case['src'])
        try:
            it = glom.glom(src, spec)
        except Overpull:
            return {'obs': [[], 'fuel', src.pulled]}
        except Exception as e:
            out['obs'] = [[], 'raise:' + exc_name(e), src.pulled]
        else:
            out['obs'] = observe(it, src, case['k'])
        # the property's reference: the same observation on the plain composition
        rsrc = Src(case['src'])
        try:
            out['ref'] = observe(reference_iter(case, rsrc), rsrc, case['k'])
        except Overpull:
            out['ref'] = [[], 'fuel', rsrc.pulled]
        except Exception as e:
            out['ref'] = [[], 'raise:' + exc_name(e), rsrc.pulled]
        return out
    if kind == 'first':
        spec = build_spec(case)
        src = Src(case['src'])
        snap = snapshot_spec(spec)
        term = spec.first(cb_py(case['key']), default=thaw(case['default']))
        try:
            v = glom.glom(src, term)
            out['val'] = {'ok': freeze(v)}
        except Overpull:
            out['val'] = {'fuel': 1}
        except Exception as e:
            out['val'] = {'raise': exc_name(e)}
        out['pulls'] = src.pulled
        out['spec_untouched'] = snapshot_spec(spec) == snap
        return out
    if kind == 'all':
        spec = build_spec(case)
        src = Src(case['src'])
        snap = snapshot_spec(spec)
        try:
            v = glom.glom(src, spec.all())
            out['val'] = {'ok': freeze(v)}
            out['is_list'] = type(v) is list
        except Overpull:
            out['val'] = {'fuel': 1}
        except Exception as e:
            out['val'] = {'raise': exc_name(e)}
        out['spec_untouched'] = snapshot_spec(spec) == snap
        return out
    if kind == 'builder':
        pool, snaps = [], []
        ok = True
        for op in case['ops']:
            if op[0] == 'new':
                pool.append(new_iter(op[1], op[2]))
            else:
                pool.append(apply_stage(pool[op[1]], op[2]))
                if pool[-1] is pool[op[1]]:
                    ok = False
            # every earlier spec is exactly as it was
            for s, snap in zip(pool, snaps):
                if snapshot_spec(s) != snap:
                    ok = False
            snaps.append(snapshot_spec(pool[-1]))
        out['earlier_untouched'] = ok
        out['distinct_stacks'] = len({id(s._iter_stack) for s in pool}) == len(pool)
        obs = []
        for s in pool:
            src = Src(case['src'])
            try:
                it = glom.glom(src, s)
            except Exception as e:
                obs.append([[], 'raise:' + exc_name(e), src.pulled])
                continue
            obs.append(observe(it, src, None))
        out['obs'] = obs
        return out
    if kind == 'tolerant':
        return run_tolerant(case)
    if kind == 'invoke':
        return run_invoke(case)
    raise ValueError(kind)


def run_invoke(case):
    """Invoke.constants / specs / star: deriving never alters the spec derived from"""
    import glom

    def snap(s):
        return (repr(s), s._args, dict(s._cur_kwargs), id(s._args))
    pool = [glom.Invoke(lambda *a, **kw: (a, sorted(kw.items())))]
    snaps = [snap(pool[0])]
    ok = True
    results_before = []
    for op in case['ops']:
        base = pool[op[1]]
        before = glom.glom({'a': 1, 'b': [2, 3], 'kw': {'z': 9}}, base)
        if op[0] == 'constants':
            new = base.constants(*op[2], **op[3])
        elif op[0] == 'specs':
            new = base.specs(*op[2], **op[3])
        else:
            new = base.star(args=op[2], kwargs=op[3])
        after = glom.glom({'a': 1, 'b': [2, 3], 'kw': {'z': 9}}, base)
        if new is base or before != after:
            ok = False
        pool.append(new)
        for s, sn in zip(pool, snaps):
            if snap(s) != sn:
                ok = False
        snaps.append(snap(new))
        results_before.append(freeze_any(after))
    # behaviour equals the plain call
    vals = []
    for s in pool:
        try:
            vals.append(freeze_any(glom.glom({'a': 1, 'b': [2, 3], 'kw': {'z': 9}}, s)))
        except Exception as e:
            vals.append({'raise': exc_name(e)})
    return {'earlier_untouched': ok, 'vals': vals, 'expected': [expected_invoke(case['ops'], i) for i in range(len(pool))]}


def freeze_any(v):
    if isinstance(v, (list, tuple)):
        return [freeze_any(x) for x in v]
    if isinstance(v, dict):
        return sorted((k, freeze_any(x)) for k, x in v.items())
    return v


def expected_invoke(ops, i):
    """what pool[i] must compute: positional args in derivation order, keyword args last-writer-wins"""
    import glom
    target = {'a': 1, 'b': [2, 3], 'kw': {'z': 9}}
    chain = []
    j = i
    while j > 0:
        op = ops[j - 1]
        chain.append(op)
        j = op[1]
    args, kw = [], {}
    try:
        for op in reversed(chain):
            if op[0] == 'constants':
                args.extend(op[2])
                kw.update(op[3])
            elif op[0] == 'specs':
                args.extend(glom.glom(target, s) for s in op[2])
                kw.update({k: glom.glom(target, s) for k, s in op[3].items()})
            else:
                if op[2] is not None:
                    args.extend(glom.glom(target, op[2]))
                if op[3] is not None:
                    kw.update(glom.glom(target, op[3]))
    except Exception as e:
        return {'raise': exc_name(e)}
    return freeze_any((tuple(args), sorted(kw.items())))


# ---------- Coq side ----------
def ending_coq(e):
    if e == 'gotk':
        return 'EGotK'
    if e == 'exhausted':
        return 'EExhausted'
    if e == 'fuel':
        return 'EFuel'
    return '(ERaised (simple_exn %s))' % cstr(e.split(':', 1)[1])


def obs_coq(o):
    outs = [enc_coq(unfreeze(x)) for x in o[0]]
    return '(%s, %s, %s)' % (clist(outs), ending_coq(o[1]), cnat(min(o[2], 4000)))


def resval_coq(v):
    if 'ok' in v:
        return '(Ok %s)' % enc_coq(unfreeze(v['ok']))
    if 'fuel' in v:
        return 'OutOfFuel'
    return '(Raise (simple_exn %s))' % cstr(v['raise'])


BAD = '([], EUnm "harness", 0)'


def coq_case(case, out):
    kind = case['kind']
    broken = 'harness_error' in out or 'harness_timeout' in out
    try:
        if kind == 'take':
            impl = '([], EFuel, 0)' if 'harness_timeout' in out else (BAD if broken else obs_coq(out['obs']))
            return '(ITake %s %s %s %s)' % (stages_coq(case), src_coq(case['src']), copt(None if case['k'] is None else cnat(case['k'])), impl)
        if kind == 'first':
            impl = '(OutOfFuel, 0)' if broken else '(%s, %s)' % (resval_coq(out['val']), cnat(out['pulls']))
            return '(IFirst %s %s %s %s %s)' % (stages_coq(case), cb_coq(case['key']), item_coq(case['default']), src_coq(case['src']), impl)
        if kind == 'all':
            impl = 'OutOfFuel' if broken else resval_coq(out['val'])
            return '(IAll %s %s %s)' % (stages_coq(case), src_coq(case['src']), impl)
        if kind == 'builder':
            ops = []
            for op in case['ops']:
                if op[0] == 'new':
                    ops.append('(BNew %s %s)' % (cb_coq(op[1]), SENT[op[2]]))
                else:
                    ops.append('(BDerive %s %s)' % (cnat(op[1]), stage_coq(op[2])))
            impl = '[]' if broken else clist([obs_coq(o) for o in out['obs']])
            return '(IBuilder %s %s %s)' % (clist(ops), src_coq(case['src']), impl)
    except pyval.Unrepresentable:
        pass
    # not expressible (or an Invoke case, decided on the Python side only): a case the model reports as unmodelled
    return '(ITake [SChunked 0 None] (SrcList [VNone]) None %s)' % BAD


def model_dump_term(case):
    if case['kind'] in ('invoke', 'tolerant'):
        return '0'
    return 'it_model_obs %s' % coq_case(case, {'obs': [[], 'gotk', 0], 'val': {'ok': None}, 'pulls': 0})


def direct_oracle(case, out):
    if 'harness_error' in out:
        return None
    kind = case['kind']
    if kind == 'take' and 'ref' in out and 'obs' in out:
        o, r = out['obs'], out['ref']
        has_windowed = any(s[0] == 'windowed' for s in case['stages'])
        if o[0] != r[0] or o[1] != r[1]:
            return 'differs from the plain itertools / boltons composition: %r vs %r' % (o, r)
        if o[2] != r[2] and not (has_windowed and case['k'] == 0):
            return 'pulls %d source items where the plain lazy composition pulls %d' % (o[2], r[2])
    if kind in ('first', 'all') and out.get('spec_untouched') is False:
        return 'a terminal method altered the spec it was called on'
    if kind == 'all' and out.get('is_list') is False:
        return 'all() did not produce a list'
    if kind == 'tolerant':
        return '; '.join(out['problems']) if out.get('problems') else None
    if kind in ('builder', 'invoke') and out.get('earlier_untouched') is False:
        return 'deriving a spec altered a spec it was derived from'
    if kind == 'builder' and out.get('distinct_stacks') is False:
        return 'two specs share one _iter_stack list object'
    if kind == 'invoke' and out.get('vals') != out.get('expected'):
        return 'a derived Invoke does not pass the arguments of its derivation chain: %r vs %r' % (out.get('vals'), out.get('expected'))
    return None


# ---------- generation ----------
def gen_cb(r, role):
    c = r.random()
    if role == 'pred':
        return r.choice([['fn', ['even']], ['lt', r.choice([2, 3, 5, 8])], ['mod', r.choice([2, 3])], ['T'], ['fn', ['is_none']],
                         ['raise_at', r.choice([1, 2, 4])], ['fn', ['gt', r.choice([0, 2])]], ['none_at', r.choice([0, 2, 3])]])
    if role == 'key':
        return r.choice([['T'], ['mod', r.choice([2, 3, 4])], ['fn', ['even']], ['raise_at', 3], ['fn', ['const', 1]]])
    if role == 'sub':
        if c < 0.5:
            return ['T']
        return r.choice([['fn', ['inc']], ['skip_at', r.choice([1, 2, 3])], ['stop_at', r.choice([2, 4, 6])], ['none_at', r.choice([2, 3])],
                         ['fn', ['skip_if_odd']], ['fn', ['stop_if_neg']], ['raise_at', r.choice([2, 5])], ['fn', ['dbl']]])
    return r.choice([['fn', ['inc']], ['fn', ['dbl']], ['mod', r.choice([2, 3, 5])], ['raise_at', r.choice([1, 3, 6])],
                     ['fn', ['skip_if_odd']], ['fn', ['stop_if_neg']], ['T'], ['none_at', r.choice([1, 2])], ['fn', ['even']],
                     ['skip_at', 2], ['lt', 3]])


def gen_stage(r):
    k = r.choice(['map', 'map', 'filter', 'filter', 'slice', 'limit', 'takewhile', 'dropwhile', 'chunked', 'windowed', 'split',
                  'unique', 'flatten'])
    if k == 'map':
        return ['map', gen_cb(r, 'map')]
    if k in ('filter', 'takewhile', 'dropwhile'):
        return [k, gen_cb(r, 'pred')]
    if k == 'unique':
        return ['unique', gen_cb(r, 'key')]
    if k == 'limit':
        return ['limit', r.choice([0, 1, 2, 3, 5])]
    if k == 'slice':
        form = r.choice([1, 2, 2, 3, 3])
        if form == 1:
            return ['slice', [r.choice([0, 1, 3, 4, None])]]
        start = r.choice([0, 1, 2, None])
        stop = r.choice([None, 2, 3, 5, 6])
        if stop is not None and (start or 0) > stop:
            stop = (start or 0) + 1
        if form == 2:
            return ['slice', [start, stop]]
        return ['slice', [start, stop, r.choice([None, 1, 2, 3])]]
    if k == 'chunked':
        return ['chunked', r.choice([1, 2, 3])] if r.random() < 0.6 else ['chunked', r.choice([2, 3]), r.choice([None, 0, -1])]
    if k == 'windowed':
        return ['windowed', r.choice([1, 2, 3])]
    if k == 'split':
        return ['split', r.choice([None, None, 0, 2]), r.choice([None, None, 1, 2])]
    return ['flatten']


def gen_src(r, nested):
    c = r.random()

    def item():
        x = r.random()
        if nested:
            return [r.choice([0, 1, 2, 3, -1, None]) for _ in range(r.randint(0, 3))] if x < 0.85 else r.choice([1, None])
        if x < 0.75:
            return r.choice([0, 1, 2, 3, 4, 5, 6, 7])
        if x < 0.85:
            return r.choice([-1, -2])
        if x < 0.93:
            return None
        return r.choice([True, False, 2, 2])
    if c < 0.6 or nested:
        return ['list', [item() for _ in range(r.choice([0, 1, 2, 3, 4, 5, 6, 8, 10]))]]
    if c < 0.8:
        return ['count', r.choice([0, 1, -2]), r.choice([1, 1, 2])]
    return ['cycle', [item() for _ in range(r.randint(1, 4))]]


def gen_pipeline(r):
    n = r.choice([0, 1, 1, 2, 2, 3, 3, 4])
    stages = [gen_stage(r) for _ in range(n)]
    nested = bool(stages) and stages[0][0] == 'flatten' and r.random() < 0.9
    sub = gen_cb(r, 'sub') if not nested else ['T']
    sentinel = r.choice(['stop', 'stop', 'none', 'false'])
    return {'sub': sub, 'sentinel': sentinel, 'stages': stages, 'src': gen_src(r, nested)}


def gen_case(r):
    c = r.random()
    if c < 0.62:
        case = gen_pipeline(r)
        case['kind'] = 'take'
        case['k'] = r.choice([None, None, 1, 1, 2, 3, 4, 5, 8]) if case['src'][0] == 'list' else r.choice([1, 1, 2, 3, 4, 5, 8, None])
        return case
    if c < 0.72:
        case = gen_pipeline(r)
        case['kind'] = 'first'
        case['key'] = gen_cb(r, 'pred')
        case['default'] = r.choice([None, 0, -1])
        return case
    if c < 0.8:
        case = gen_pipeline(r)
        case['kind'] = 'all'
        if case['src'][0] != 'list' and not any(s[0] in ('limit',) for s in case['stages']):
            case['stages'].append(['limit', r.choice([1, 2, 4])])
        return case
    if c < 0.95:
        ops = [['new', gen_cb(r, 'sub'), r.choice(['stop', 'none', 'false'])]]
        for _ in range(r.randint(2, 6)):
            if r.random() < 0.12:
                ops.append(['new', gen_cb(r, 'sub'), r.choice(['stop', 'none'])])
            else:
                ops.append(['derive', r.randint(0, len(ops) - 1), gen_stage(r)])
        return {'kind': 'builder', 'ops': ops, 'src': ['list', [r.choice([0, 1, 2, 3, 4, 5, -1, None]) for _ in range(r.randint(0, 7))]]}
    ops = []
    for i in range(r.randint(1, 5)):
        base = r.randint(0, i)
        k = r.choice(['constants', 'specs', 'star'])
        if k == 'constants':
            ops.append(['constants', base, [r.choice([1, 'x'])] * r.randint(0, 2), {r.choice(['p', 'q']): r.choice([1, 2])} if r.random() < 0.6 else {}])
        elif k == 'specs':
            ops.append(['specs', base, [r.choice(['a', 'b'])] * r.randint(0, 2), {r.choice(['p', 'q']): r.choice(['a', 'b'])} if r.random() < 0.6 else {}])
        else:
            a = r.choice(['b', None])
            ops.append(['star', base, a, r.choice(['kw', None]) if a else 'kw'])
    return {'kind': 'invoke', 'ops': ops}


def corpus():
    T = ['T']
    return [
        # F10: a derived spec keeps the sentinel of its base
        {'kind': 'take', 'sub': T, 'sentinel': 'none', 'stages': [['map', ['fn', ['inc']]]], 'src': ['list', [1, 2, None, 4]], 'k': None},
        {'kind': 'take', 'sub': T, 'sentinel': 'stop', 'stages': [['map', ['fn', ['inc']]], ['filter', ['fn', ['even']]], ['limit', 2]],
         'src': ['count', 0, 1], 'k': None},
        {'kind': 'take', 'sub': T, 'sentinel': 'stop', 'stages': [['chunked', 2], ['map', ['fn', ['len']]]], 'src': ['list', [1, 2, 3]], 'k': None},
        {'kind': 'take', 'sub': T, 'sentinel': 'stop', 'stages': [['windowed', 2], ['limit', 1]], 'src': ['count', 0, 1], 'k': 1},
        {'kind': 'take', 'sub': T, 'sentinel': 'stop', 'stages': [['flatten'], ['map', ['raise_at', 2]]], 'src': ['list', [[1, 2], [3]]], 'k': 1},
        {'kind': 'first', 'sub': T, 'sentinel': 'stop', 'stages': [], 'src': ['count', 1, 1], 'key': ['fn', ['even']], 'default': None},
        {'kind': 'all', 'sub': T, 'sentinel': 'stop', 'stages': [['split', None, None]], 'src': ['list', [1, None, None, 2, 3, None]]},
        {'kind': 'builder', 'ops': [['new', T, 'none'], ['derive', 0, ['map', ['fn', ['inc']]]], ['derive', 0, ['limit', 1]],
                                    ['derive', 1, ['filter', ['fn', ['even']]]]], 'src': ['list', [1, 2, 3, None, 5]]},
        {'kind': 'invoke', 'ops': [['constants', 0, [1], {'p': 1}], ['specs', 0, ['a'], {}], ['star', 1, 'b', 'kw']]},
    ]


def tolerant_scenarios():
    """a consumer that catches the error one item raises in a map / filter stage and keeps pulling: the itertools composition
    (map / filter objects) carries on with the next item, and so must the pipeline; a stage function that raises StopIteration ends
    the stream like map(next, ..) does. (name, source, pipeline, the same composition written with itertools)"""
    import glom
    Iter = glom.Iter
    rows = lambda: ['1', '2', 'x', '4', '0', 'y', '6']  # noqa: E731
    its = lambda: [iter([1]), iter([]), iter([3])]  # noqa: E731
    return [
        ('map(int)', rows, lambda: Iter().map(int), lambda src: map(int, src)),
        ('filter(int != 0)', rows, lambda: Iter().filter(lambda s: int(s) != 0), lambda src: filter(lambda s: int(s) != 0, src)),
        ('map(int).filter(odd)', rows, lambda: Iter().map(int).filter(lambda z: z % 2), lambda src: filter(lambda z: z % 2, map(int, src))),
        ('filter(isdigit).map(int)', rows, lambda: Iter().filter(str.isdigit).map(int), lambda src: map(int, filter(str.isdigit, src))),
        ('map(int).chunked(2)', rows, lambda: Iter().map(int).chunked(2), None),
        ('map(next) over iterators, one empty', its, lambda: Iter().map(next), lambda src: map(next, src)),
    ]


def run_tolerant(case):
    import glom
    name, src, mk, comp = tolerant_scenarios()[case['i']]

    def drain(it):
        out = []
        for _ in range(20):
            try:
                out.append(next(it))
            except StopIteration:
                out.append('<exhausted>')
                break
            except Exception as e:
                out.append('!' + type(e).__name__)
        return out
    try:
        got = drain(iter(glom.glom(src(), mk())))
    except Exception as e:
        return {'problems': ['tolerant %s: building the pipeline raised %s' % (name, type(e).__name__)]}
    if comp is None:
        return {'problems': []}          # chunked is a generator in any composition: only required not to fail while building
    want = drain(iter(comp(iter(src()))))
    return {'problems': [] if got == want else ['tolerant %s: the pipeline gives %r, the itertools composition %r' % (name, got, want)]}


def generate(rng, tier):
    n = 1800 if tier == 'quick' else 16000
    return [{'kind': 'tolerant', 'i': i} for i in range(len(tolerant_scenarios()))] + [gen_case(rng) for _ in range(n)]


def nontrivial(case, out):
    if case['kind'] in ('builder', 'invoke', 'tolerant'):
        return True
    return len(case['stages']) >= 2 or case['src'][0] != 'list' or 'raise' in repr(out)


def classify(case, out):
    if case['kind'] in ('builder', 'invoke', 'tolerant'):
        return case['kind']
    end = out.get('obs', [None, out.get('val') and next(iter(out['val'])), 0])[1]
    return '%s:%d-stages:%s:%s' % (case['kind'], len(case['stages']), case['src'][0], str(end).split(':')[0])


def python_snippet(case):
    return ('import sys; sys.path.insert(0, "/verif/harness"); sys.path.insert(0, "/repo")\n'
            'import props.c17 as p; print(p.run_impl(%r))' % (case,))
