"""C18 — T and Path are faithful values: repr, pickle and slicing round-trip."""
import io
import pickle
import tokenize
import ast as pyast
import builtins

from lib import cstr, cz, cbool, clist, copt

ID = 'C18'
PROPERTY_FILE = 'Properties/C18'
MODEL_FILES = ['Model/PathSeq', 'Model/TRepr', 'Corr/C18']
GENERATED_DEPS = ['PathOps.v']
COQ_HEADER = ('From Coq Require Import String ZArith List.\nImport ListNotations.\n'
              'From Glom Require Import Base.PyVal Model.TEval Model.PathSeq Model.TRepr Corr.C18.\n'
              'Local Open Scope string_scope.\n')
CHECK_FN = 'c18_check'
RULE = ('repr cases: random T expressions and Paths (length 0-5) over attribute, item (ints, strings with quotes and dots, None, '
        'bools, floats, builtins, nested tuples, slices, 1-tuples holding slices), call (positional + keyword) and wildcard steps '
        'with literal and nested-T arguments, rooted at T, S and A; Paths mix plain segments and T chunks; observed: the token '
        'list of repr(x), the expression obtained by eval(repr(x)) and by pickle round-trip. seq cases: every Path method '
        '(len, values, items, int index, slice, startswith, ==, Path(p, q), __stars__) on random paths of length 0-6, indexes '
        'over [-n-2, n+2], slice triples over {None, -8..8} x {None, +-1, +-2, 3, 0}; thorough enumerates all triples for n <= 6. '
        'Non-trivial: repr case with >= 3 steps of >= 2 kinds or a nested argument; seq case on a path with >= 2 steps.')
ASSUMPTIONS = ["Python's own tokenizer / parser / repr of atoms and the pickle machinery are outside the model",
               'call keyword arguments are generated with sorted keys (format_invocation sorts them)']
SHARD = 500

NAMES = ['a', 'b', 'c', 'foo', 'k0', 'x_y', 'values']
STRS = ['a', 'b', 'x.y', "it's", 'say "hi"', '', 'a b', '*', '**', '0', "q'\"z",
        'a string that is rather longer than thirty characters, quite a bit longer']     # reprlib's default limits: 30 characters,
BUILTINS = ['len', 'int', 'str', 'sum', 'list', 'dict']
FLOATS = ['1.5', '-0.25', '2.0', '1e+100', '0.1']
ROOTS = {'T': 'RT', 'S': 'RS', 'A': 'RA'}


def corpus():
    L = lambda v: {'lit': v}  # noqa: E731
    cs = [
        {'kind': 'repr', 'path': False, 'root': 'T', 'steps': [['[', {'tup': [L(1)]}]]},
        {'kind': 'repr', 'path': False, 'root': 'T', 'steps': [['[', {'tup': []}]]},
        {'kind': 'repr', 'path': True, 'root': 'S', 'steps': [['.', L('a')], ['P', L('b')]]},
        {'kind': 'repr', 'path': True, 'root': 'S', 'steps': [['P', L('a')], ['P', L('b')]]},
        {'kind': 'repr', 'path': True, 'root': 'S', 'steps': [['.', L('a')]]},
        {'kind': 'repr', 'path': True, 'root': 'T', 'steps': [['P', {'name': 'len'}]]},
        {'kind': 'repr', 'path': True, 'root': 'T', 'steps': []},
        {'kind': 'repr', 'path': False, 'root': 'T', 'steps': [['[', {'tup': [{'slice': [L(1), L(2), None]}]}]]},
        {'kind': 'repr', 'path': False, 'root': 'T', 'steps': [['.', L('a')], ['x', None], ['[', {'slice': [None, None, L(-1)]}], ['(', {'call': [L(1)], 'kw': [['k', L('v')]]}]]},
        {'kind': 'repr', 'path': True, 'root': 'T', 'steps': [['P', L('a')], ['.', L('b')], ['[', L('c')], ['P', L('x.y')], ['X', None]]},
    ]
    ops = ['T', 'P', 'a', 'P', 'b', 'P', 'c']
    for i in [3, -4, 0, 2, -3, -1]:
        cs.append({'kind': 'seq', 'ops': ops, 'op': ['getint', i]})
    for tr in [[2, 0, -1], [-5, None, None], [None, None, -1], [1, None, 2], [None, None, 0], [5, 1, -2]]:
        cs.append({'kind': 'seq', 'ops': ops, 'op': ['slice'] + tr})
    return cs


class Gen:
    def __init__(self, rng):
        self.r = rng

    def lit(self):
        r = self.r
        k = r.random()
        if k < 0.3:
            return {'lit': r.choice([0, 1, -1, 2, 7, -12, 100, 10 ** 45 + 7])}       # ... 40 digits,
        if k < 0.6:
            return {'lit': r.choice(STRS)}
        if k < 0.7:
            return {'lit': r.choice([None, True, False])}
        if k < 0.8:
            return {'float': r.choice(FLOATS)}
        return {'name': r.choice(BUILTINS)}

    def arg(self, depth, allow_t=True):
        r = self.r
        k = r.random()
        if depth <= 0 or k < 0.6:
            return self.lit()
        if k < 0.8:
            n = r.choice([0, 1, 2, 3, 0, 1, 2, 3, 7, 9])                              # ... 6 elements
            return {'tup': [self.arg(depth - 1 if n < 7 else 0, allow_t) for _ in range(n)]}
        if allow_t:
            rt = r.choice(['T', 'T', 'S'])
            return {'t': {'root': rt, 'steps': self.steps(r.randint(1, 2), depth - 1, root=rt, nested=True)}}
        return self.lit()

    def slice_(self, depth):
        r = self.r
        part = lambda: None if r.random() < 0.4 else ({'lit': r.choice([0, 1, -1, 2, 5])} if r.random() < 0.85 else self.arg(depth - 1))  # noqa: E731
        parts = [part(), part(), None if r.random() < 0.5 else part()]
        return {'slice': [None if (x is not None and x.get('lit', 0) is None and 'lit' in x) else x for x in parts]}

    def index(self, depth):
        r = self.r
        k = r.random()
        if k < 0.5:
            return self.arg(depth)
        if k < 0.7:
            return self.slice_(depth)
        if k < 0.8:
            return {'tup': [self.slice_(depth)]}
        n = r.choice([2, 3])
        return {'tup': [self.slice_(depth) if r.random() < 0.4 else self.arg(depth - 1) for _ in range(n)]}

    def steps(self, n, depth, root='T', nested=False, allow_p=False):
        r = self.r
        out = []
        for i in range(n):
            kinds = ['.', '.', '[', '[', '(', 'x', 'X']
            if root == 'A':
                kinds = ['.', '[']
            if allow_p:
                kinds += ['P', 'P', 'P']
            if root == 'S' and i == 0:
                kinds = [k for k in kinds if k != '(']
            k = r.choice(kinds)
            if k == '.':
                out.append(['.', {'lit': r.choice(NAMES)}])
            elif k == '[':
                out.append(['[', self.index(depth)])
            elif k == '(':
                na = r.choice([0, 1, 2])
                kws = sorted(r.sample(['k', 'key', 'z'], r.choice([0, 0, 1, 2])))
                out.append(['(', {'call': [self.arg(depth) for _ in range(na)], 'kw': [[kk, self.arg(depth)] for kk in kws]}])
            elif k == 'P':
                a = self.arg(1, allow_t=False)
                out.append(['P', a])
            else:
                out.append([k, None])
        return out

    def repr_case(self):
        r = self.r
        path = r.random() < 0.5
        root = r.choice(['T', 'T', 'T', 'S', 'A'])
        n = r.choice([0, 1, 2, 3, 3, 4, 5])
        steps = self.steps(n, 2, root=root, allow_p=path)
        if root == 'A' and not steps and not path:
            root = 'T'
        if path and r.random() < 0.25:
            # a later T chunk that repeats (is == to) the leading chunk, after a plain segment: only the leading chunk carries the root
            import copy
            i = next((j for j, st in enumerate(steps) if st[0] == 'P'), len(steps))
            lead = steps[:i] or [['.', {'lit': r.choice(NAMES)}]] if r.random() < 0.7 else [['[', {'lit': 1}]]
            rest = steps[i:] or [['P', {'lit': 'b'}]]
            if rest[-1][0] != 'P':
                rest = rest + [['P', {'lit': r.choice(STRS)}]]
            again = copy.deepcopy(lead)
            if again == [['[', {'lit': 1}]] and r.random() < 0.5:
                again = [['[', {'lit': True}]]
            steps = lead + rest + again
        return {'kind': 'repr', 'path': path, 'root': root, 'steps': steps}

    def seq_case(self, n=None, op=None):
        r = self.r
        n = r.randint(0, 6) if n is None else n
        ops = [r.choice(['T', 'T', 'S'])]
        for i in range(n):
            ops.append(r.choice(['P', 'P', '.', '[', 'x', 'X']))
            ops.append(r.choice(['a', 'b', 'c', '0', '1']))
        if op is None:
            k = r.random()
            other = list(ops[:1 + 2 * r.randint(0, n)])
            if r.random() < 0.3 and len(other) > 1:
                other[-1] = 'zz'
            if r.random() < 0.2:
                other += ['P', 'q']
            iv = lambda: r.choice([None] + list(range(-8, 9)))  # noqa: E731
            if k < 0.08:
                op = ['len']
            elif k < 0.16:
                op = ['values']
            elif k < 0.24:
                op = ['items']
            elif k < 0.45:
                op = ['getint', r.randint(-n - 2, n + 2)]
            elif k < 0.75:
                op = ['slice', iv(), iv(), r.choice([None, 1, -1, 2, -2, 3, 0])]
            elif k < 0.83:
                # the argument spelled as a Path, as the bare T expression, or (a single plain segment) as a string
                op = ['startswith', other, r.choice(['path', 'path', 't', 'text', 'bad'])]
            elif k < 0.9:
                op = ['eq', other, r.choice(['path', 'path', 't', 'ne', 'ne-t', 'other-type'])]
            elif k < 0.96:
                op = ['concat', ['T'] + other[1:]]
                if r.random() < 0.5:
                    # the first part given as the T / S / A expression itself (any root, also the bare root with no steps)
                    op.append('t')
                    ops[0] = r.choice(['T', 'S', 'S', 'A'])
                    if r.random() < 0.4:
                        del ops[1:]
                    if ops[0] == 'A' and any(c in ('x', 'X') for c in (ops[1::2] + op[1][1::2])):
                        ops[0] = 'S'                 # wildcards are refused on an A (assignment) path
                else:
                    ops[0] = 'T'     # Path(p, q) accepts Path OBJECTS rooted at T only
            else:
                op = ['stars']
        return {'kind': 'seq', 'ops': ops, 'op': op}


def generate(rng, tier):
    g = Gen(rng)
    cases = [{'kind': 'dunder', 'i': i} for i in range(len(dunder_scenarios()))]
    nr, ns = (700, 900) if tier == 'quick' else (6000, 6000)
    for _ in range(nr):
        cases.append(g.repr_case())
    for _ in range(ns):
        cases.append(g.seq_case())
    if tier == 'thorough':
        for n in range(0, 7):
            base = g.seq_case(n=n, op=['len'])
            for a in [None] + list(range(-8, 9)):
                for b in [None] + list(range(-8, 9)):
                    for c in [None, 1, -1, 2, -2, 3]:
                        cases.append({'kind': 'seq', 'ops': base['ops'], 'op': ['slice', a, b, c]})
            for i in range(-9, 10):
                cases.append({'kind': 'seq', 'ops': base['ops'], 'op': ['getint', i]})
    return cases


# ----------------------------------------------------------------------------------------
def build_arg(a):
    import glom
    if a is None:
        return None
    if 'lit' in a:
        return a['lit']
    if 'float' in a:
        return float(a['float'])
    if 'name' in a:
        return getattr(builtins, a['name'])
    if 'tup' in a:
        return tuple(build_arg(x) for x in a['tup'])
    if 'slice' in a:
        return slice(*[build_arg(x) for x in a['slice']])
    if 't' in a:
        return build_t(a['t']['root'], a['t']['steps'])
    raise ValueError(a)


def build_t(root, steps):
    import glom
    t = {'T': glom.T, 'S': glom.S, 'A': glom.A}[root]
    for code, a in steps:
        if code == '.':
            t = getattr(t, a['lit'])
        elif code == '[':
            t = t[build_arg(a)]
        elif code == '(':
            t = t(*[build_arg(x) for x in a['call']], **{k: build_arg(v) for k, v in a['kw']})
        elif code == 'x':
            t = t.__star__()
        elif code == 'X':
            t = t.__starstar__()
        else:
            raise ValueError(code)
    return t


def build_obj(case):
    import glom
    if not case['path']:
        return build_t(case['root'], case['steps'])
    parts = []
    chunk = []
    first = True
    for code, a in case['steps']:
        if code == 'P':
            if chunk or (first and case['root'] != 'T'):
                parts.append(build_t(case['root'] if first else 'T', chunk))
                chunk = []
            first = False
            parts.append(build_arg(a))
        else:
            chunk.append([code, a])
    if chunk or (first and case['root'] != 'T'):
        parts.append(build_t(case['root'] if first else 'T', chunk))
    return glom.Path(*parts)


def ops_of(obj):
    import glom
    return obj.path_t.__ops__ if isinstance(obj, glom.Path) else obj.__ops__


def arg_ir(v):
    import glom
    if v is None or isinstance(v, (bool, int, str)):
        return {'lit': v}
    if isinstance(v, float):
        return {'float': repr(v)}
    if isinstance(v, tuple):
        return {'tup': [arg_ir(x) for x in v]}
    if isinstance(v, slice):
        return {'slice': [None if x is None else arg_ir(x) for x in (v.start, v.stop, v.step)]}
    if isinstance(v, glom.core.TType):
        return {'t': texpr_ir(v.__ops__)}
    if getattr(builtins, getattr(v, '__name__', ''), None) is v:
        return {'name': v.__name__}
    return {'opaque': repr(v)}


def texpr_ir(ops):
    import glom
    root = {id(glom.T): 'T', id(glom.S): 'S', id(glom.A): 'A'}[id(ops[0])]
    steps = []
    for i in range(1, len(ops), 2):
        code, a = ops[i], ops[i + 1]
        if code == '(':
            args, kw = a
            steps.append(['(', {'call': [arg_ir(x) for x in args], 'kw': [[k, arg_ir(kw[k])] for k in sorted(kw)]}])
        elif code in 'xX':
            steps.append([code, None])
        else:
            steps.append([code, arg_ir(a)])
    return {'root': root, 'steps': steps}


def tokens_of(text):
    """tokenise a repr into the token alphabet of Model/TRepr.v"""
    toks = []
    raw = [t for t in tokenize.generate_tokens(io.StringIO(text).readline)
           if t.type not in (tokenize.NEWLINE, tokenize.ENDMARKER, tokenize.NL, tokenize.INDENT, tokenize.DEDENT)]
    i = 0
    prev_sig = None   # previous significant token string
    while i < len(raw):
        t = raw[i]
        s = t.string
        nxt = raw[i + 1].string if i + 1 < len(raw) else None
        if t.type == tokenize.NAME:
            if prev_sig == '.':
                toks.append(['name', s])
            elif nxt == '=':
                toks.append(['name', s])
            elif s in ('T', 'S', 'A'):
                toks.append(['root', s])
            elif s == 'Path':
                toks.append(['path'])
            elif s in ('None', 'True', 'False'):
                toks.append(['lit', {'lit': {'None': None, 'True': True, 'False': False}[s]}])
            else:
                toks.append(['lit', {'name': s}])
        elif t.type == tokenize.NUMBER:
            toks.append(['lit', _num(s)])
        elif t.type == tokenize.STRING:
            toks.append(['lit', {'lit': pyast.literal_eval(s)}])
        elif t.type == tokenize.OP:
            if s == '-' and raw[i + 1].type == tokenize.NUMBER and prev_sig in (None, '[', '(', ',', ':', '='):
                toks.append(['lit', _num('-' + raw[i + 1].string)])
                i += 1
                s = raw[i].string
            else:
                m = {'.': 'dot', '[': 'lb', ']': 'rb', '(': 'lp', ')': 'rp', ',': 'comma', ':': 'colon', '=': 'eq'}
                if s not in m:
                    toks.append(['bad', s])
                else:
                    toks.append([m[s]])
        else:
            toks.append(['bad', s])
        prev_sig = s
        i += 1
    return toks


def _num(s):
    if any(c in s for c in '.eEjJ') and not s.lower().startswith('0x'):
        return {'float': repr(float(s))}
    return {'lit': int(s)}


def seq_key(x):
    import glom
    if x is glom.T:
        return 'T'
    if x is glom.S:
        return 'S'
    if x is glom.A:
        return 'A'
    return x


def dunder_scenarios():
    """steps that name dunder attributes are recorded with T.__('name__') (T reserves T.__name__ itself): repr spells them that way,
    so that it evaluates back (F41); outside the print / read model, whose attribute names do not begin with two underscores"""
    import glom
    T, S, Path = glom.T, glom.S, glom.Path
    return [T.__('class__'), T.__('class__').__('name__'), T.a.__('b__')['c'], S.__('x__'), S.v.__('len__')(), T[T.__('k__')],
            T(T.__('k__'), key=T.a.__('z__')), Path('a', T.__('len__')), Path(T.__('dict__'), 'k'), T.__star__().__('doc__'),
            # every name that BEGINS with two underscores is reserved by T.__getattr__, whatever it ends with
            T.__('x'), T.__('secret').k, T.a.__('b_'), S.__('v'), Path('a', T.__('x')), T.__(''), T.__('_'), T[T.__('x')], T(T.__('x'))]


def run_dunder(case):
    import glom
    import pickle
    x = dunder_scenarios()[case['i']]
    text = repr(x)
    problems = []
    try:
        ev = eval(text, {'T': glom.T, 'S': glom.S, 'A': glom.A, 'Path': glom.Path, '__builtins__': builtins})
        if type(ev) is not type(x) or texpr_ir(ops_of(ev)) != texpr_ir(ops_of(x)):
            problems.append('eval(repr(x)) is not x: repr %r evaluates to %r' % (text, ev))
        elif repr(ev) != text:
            problems.append('repr(eval(repr(x))) differs: %r vs %r' % (repr(ev), text))
    except Exception as e:
        problems.append('eval(repr(x)) failed for %r: %s' % (text, type(e).__name__))
    try:
        pk = pickle.loads(pickle.dumps(x))
        if texpr_ir(ops_of(pk)) != texpr_ir(ops_of(x)):
            problems.append('pickle round trip changed %r' % text)
    except Exception as e:
        problems.append('pickle failed for %r: %s' % (text, type(e).__name__))
    return {'problems': problems}


def run_impl(case):
    if case['kind'] == 'dunder':
        return run_dunder(case)
    import glom
    if case['kind'] == 'repr':
        obj = build_obj(case)
        text = repr(obj)
        out = {'text': text, 'ir': texpr_ir(ops_of(obj))}
        try:
            out['tokens'] = tokens_of(text)
        except Exception as e:
            out['tokens'] = [['bad', 'tokenize: %r' % e]]
        try:
            ev = eval(text, {'T': glom.T, 'S': glom.S, 'A': glom.A, 'Path': glom.Path, '__builtins__': builtins})
            out['evald'] = texpr_ir(ops_of(ev))
            out['evald_repr_same'] = repr(ev) == text
        except Exception as e:
            out['evald'] = None
            out['eval_error'] = '%s: %s' % (type(e).__name__, e)
        try:
            pk = pickle.loads(pickle.dumps(obj))
            out['pickled'] = texpr_ir(ops_of(pk))
            out['pickled_same_type'] = type(pk) is type(obj)
            # every protocol (0 and 1 go through copyreg and treat slotted classes differently), and the copy module
            import copy
            for proto in range(0, pickle.HIGHEST_PROTOCOL + 1):
                pk2 = pickle.loads(pickle.dumps(obj, proto))
                if texpr_ir(ops_of(pk2)) != out['pickled'] or type(pk2) is not type(obj):
                    out['pickled'] = None
                    out['pickle_error'] = 'protocol %d gives a different expression' % proto
                    break
            else:
                for cp in (copy.copy(obj), copy.deepcopy(obj)):
                    if texpr_ir(ops_of(cp)) != out['pickled'] or type(cp) is not type(obj):
                        out['pickled'] = None
                        out['pickle_error'] = 'copy / deepcopy gives a different expression'
        except Exception as e:
            out['pickled'] = None
            out['pickle_error'] = '%s: %s' % (type(e).__name__, e)
        return out
    # seq
    ops = case['ops']
    t = glom.core.TType()
    root = {'T': glom.T, 'S': glom.S, 'A': glom.A}[ops[0]]
    t.__ops__ = (root,) + tuple(ops[1:])
    if len(ops) == 1:
        t = root                                     # the bare root is the T / S / A object itself
    try:
        p = glom.Path(t)
    except Exception as e:
        return {'err': type(e).__name__}
    op = case['op']

    def mk(o):
        tt = glom.core.TType()
        tt.__ops__ = ({'T': glom.T, 'S': glom.S, 'A': glom.A}[o[0]],) + tuple(o[1:])
        return glom.Path(tt)
    try:
        if op[0] == 'len':
            return {'z': len(p)}
        if op[0] == 'values':
            return {'list': list(p.values())}
        if op[0] == 'items':
            return {'pairs': [list(x) for x in p.items()]}
        if op[0] in ('getint', 'slice'):
            q = p[op[1]] if op[0] == 'getint' else p[slice(op[1], op[2], op[3])]
            out = {'list': [seq_key(x) for x in q.path_t.__ops__]}
            # the Path obtained by indexing / slicing is itself a faithful value (an empty selection included)
            try:
                import copy
                for proto in (0, 2, pickle.HIGHEST_PROTOCOL):
                    back = pickle.loads(pickle.dumps(q, proto))
                    if type(back) is not type(q) or [seq_key(x) for x in back.path_t.__ops__] != out['list'] or repr(back) != repr(q):
                        out['derived_pickle'] = 'protocol %d changed %r into %r' % (proto, q, back)
                back = copy.deepcopy(q)
                if [seq_key(x) for x in back.path_t.__ops__] != out['list']:
                    out['derived_pickle'] = 'deepcopy changed %r into %r' % (q, back)
            except Exception as e:
                out['derived_pickle'] = '%r: %s: %s' % (q, type(e).__name__, e)
            return out
        form = op[2] if len(op) > 2 else 'path'
        if op[0] == 'startswith':
            o = op[1]
            if form == 'bad':
                try:
                    p.startswith(len(o))
                except TypeError:
                    return {'bool': p.startswith(mk(o)), 'bad_arg': 'TypeError'}
                return {'bool': p.startswith(mk(o)), 'bad_arg': 'accepted'}
            if form == 'text' and o[0] == 'T' and len(o) == 3 and o[1] == 'P':
                return {'bool': p.startswith(o[2])}          # a string argument is ONE plain segment (Path(text) does not split on dots)
            return {'bool': p.startswith(mk(o).path_t if form == 't' else mk(o))}
        if op[0] == 'eq':
            o = mk(op[1])
            if form == 'other-type':
                return {'bool': p == o, 'other_type': [p == tuple(p.values()), p != tuple(p.values()), p == 5]}
            if form in ('ne', 'ne-t'):
                return {'bool': not (p != (o.path_t if form == 'ne-t' else o))}
            return {'bool': p == (o.path_t if form == 't' else o)}
        if op[0] == 'concat':
            return {'list': [seq_key(x) for x in glom.Path(p.path_t if form == 't' else p, mk(op[1])).path_t.__ops__]}
        if op[0] == 'stars':
            return {'z': p.path_t.__stars__()}
    except Exception as e:
        return {'err': type(e).__name__}
    raise ValueError(op)


# ----------------------------------------------------------------------------------------
def lit_coq(a):
    if 'float' in a:
        return '(LFloat %s)' % cstr(a['float'])
    if 'name' in a:
        return '(LName %s)' % cstr(a['name'])
    v = a['lit']
    if v is None:
        return 'LNone'
    if isinstance(v, bool):
        return '(LBool %s)' % cbool(v)
    if isinstance(v, int):
        return '(LInt %s)' % cz(v)
    return '(LStr %s)' % cstr(v)


def targ_coq(a):
    if a is None:
        return 'GNoArg'
    if 'lit' in a or 'float' in a or 'name' in a:
        return '(GLit %s)' % lit_coq(a)
    if 'tup' in a:
        return '(GTup %s)' % clist(targ_coq(x) for x in a['tup'])
    if 'slice' in a:
        return '(GSlice %s)' % ' '.join(copt(x, targ_coq) for x in a['slice'])
    if 't' in a:
        return '(GT %s %s)' % (ROOTS[a['t']['root']], steps_coq(a['t']['steps']))
    if 'call' in a:
        return '(GCall %s %s)' % (clist(targ_coq(x) for x in a['call']), clist('(%s, %s)' % (cstr(k), targ_coq(v)) for k, v in a['kw']))
    raise ValueError(a)


def steps_coq(steps):
    return clist('(%s, %s)' % (cstr(c), targ_coq(a)) for c, a in steps)


def texpr_coq(ir):
    return '(%s, %s)' % (ROOTS[ir['root']], steps_coq(ir['steps']))


def tok_coq(t):
    k = t[0]
    if k == 'root':
        return '(KRoot %s)' % ROOTS[t[1]]
    if k == 'name':
        return '(KName %s)' % cstr(t[1])
    if k == 'lit':
        return '(KLit %s)' % lit_coq(t[1])
    if k == 'bad':
        return '(KName "<bad>")'
    return {'dot': 'KDot', 'lb': 'KLB', 'rb': 'KRB', 'lp': 'KLP', 'rp': 'KRP', 'comma': 'KComma', 'colon': 'KColon',
            'eq': 'KEq', 'path': 'KPath'}[k]


def _has_opaque(x):
    if isinstance(x, dict):
        return 'opaque' in x or any(_has_opaque(v) for v in x.values())
    if isinstance(x, list):
        return any(_has_opaque(v) for v in x)
    return False


def seqop_coq(op):
    sl = lambda l: clist(cstr(x) for x in l)  # noqa: E731
    if op[0] == 'len':
        return 'OLen'
    if op[0] == 'values':
        return 'OValues'
    if op[0] == 'items':
        return 'OItems'
    if op[0] == 'getint':
        return '(OGetInt %s)' % cz(op[1])
    if op[0] == 'slice':
        return '(OGetSlice %s %s %s)' % tuple(copt(x, cz) for x in op[1:4])
    if op[0] == 'startswith':
        return '(OStartswith %s)' % sl(op[1])
    if op[0] == 'eq':
        return '(OEq %s)' % sl(op[1])
    if op[0] == 'concat':
        return '(OConcat %s)' % sl(op[1])
    return 'OStars'


def coq_case(case, out):
    if case['kind'] == 'dunder':
        return '(CSeq ["T"] OLen (RZ 0))'            # decided on the implementation side
    if 'harness_error' in out or 'harness_timeout' in out:
        return '(CSeq [] OLen (RErr "harness"))'
    if case['kind'] == 'repr':
        e = texpr_coq({'root': case['root'], 'steps': case['steps']})
        ev = out.get('evald')
        evs = 'None' if (ev is None or _has_opaque(ev)) else '(Some %s)' % texpr_coq(ev)
        return '(CRepr %s %s %s %s)' % (cbool(case['path']), e, clist(tok_coq(t) for t in out['tokens']), evs)
    if 'z' in out:
        o = '(RZ %s)' % cz(out['z'])
    elif 'list' in out:
        o = '(RList %s)' % clist(cstr(x) for x in out['list'])
    elif 'pairs' in out:
        o = '(RPairs %s)' % clist('(%s, %s)' % (cstr(a), cstr(b)) for a, b in out['pairs'])
    elif 'bool' in out:
        o = '(RBool %s)' % cbool(out['bool'])
    else:
        o = '(RErr %s)' % cstr(out['err'])
    return '(CSeq %s %s %s)' % (clist(cstr(x) for x in case['ops']), seqop_coq(case['op']), o)


def model_dump_term(case):
    if case['kind'] == 'dunder':
        return '0'
    if case['kind'] == 'repr':
        e = texpr_coq({'root': case['root'], 'steps': case['steps']})
        return 'repr_model %s %s' % (cbool(case['path']), e)
    return 'seq_model %s %s' % (clist(cstr(x) for x in case['ops']), seqop_coq(case['op']))


def direct_oracle(case, out):
    if case['kind'] == 'dunder':
        return '; '.join(out['problems']) if out.get('problems') else None
    if out.get('bad_arg') == 'accepted':
        return 'Path.startswith(<int>) did not raise TypeError'
    if out.get('derived_pickle'):
        return 'a Path obtained by indexing / slicing does not round-trip: %s' % out['derived_pickle']
    if 'other_type' in out and out['other_type'] != [False, True, False]:
        return 'a Path compares equal to a non-Path value: %r' % (out['other_type'],)
    if case['kind'] != 'repr' or 'ir' not in out:
        return None
    want = {'root': case['root'], 'steps': case['steps']}
    if out['ir'] != want:
        return 'harness built a different expression than the case describes: %r' % (out['ir'],)
    if out.get('evald') is None:
        return 'eval(repr(x)) failed: %s (repr %r)' % (out.get('eval_error'), out['text'])
    if out['evald'] != want:
        return 'eval(repr(x)) is a different expression: repr %r' % out['text']
    if not out.get('evald_repr_same'):
        return 'repr(eval(repr(x))) differs from repr(x)'
    if out.get('pickled') != want or not out.get('pickled_same_type'):
        return 'pickle round-trip changed the expression: %s' % (out.get('pickle_error'),)
    return None


def nontrivial(case, out):
    if case['kind'] == 'dunder':
        return True
    if case['kind'] == 'repr':
        kinds = set(c for c, _ in case['steps'])
        nested = any(isinstance(a, dict) and ('t' in a or 'tup' in a or 'slice' in a or 'call' in a) for _, a in case['steps'])
        return (len(case['steps']) >= 3 and len(kinds) >= 2) or nested
    return len(case['ops']) >= 5


def classify(case, out):
    if case['kind'] == 'dunder':
        return 'dunder'
    if case['kind'] == 'repr':
        return 'repr:%s:%s' % ('Path' if case['path'] else 'T', case['root'])
    return 'seq:%s:%s' % (case['op'][0], 'err' if 'err' in out else 'ok')


def python_snippet(case):
    return ('import sys; sys.path.insert(0, "/verif/harness"); sys.path.insert(0, "/repo")\n'
            'import props.c18 as p; print(p.run_impl(%r))' % (case,))
