"""C19 — the CLI prints what the library computes; default-format specs never execute."""
import ast
import contextlib
import io
import json
import os
import subprocess
import sys

import pyspec
import pyval
from lib import cbool, clist, cz

ID = 'C19'
PROPERTY_FILE = 'Properties/C19'
MODEL_FILES = ['Model/Interp', 'Model/Cli', 'Corr/Cli']
GENERATED_DEPS = []
COQ_HEADER = ('From Coq Require Import String ZArith List.\nImport ListNotations.\n'
              'From Glom Require Import Base.PyVal Model.TEval Model.Interp Model.Cli Corr.Cli.\nLocal Open Scope string_scope.\n')
CHECK_FN = 'cli_check'
UNMODELLED_FN = 'cli_unmodelled'
RULE = ('JSON-representable targets (dicts with ASCII string keys incl. quotes / backslashes, lists, ints, strings, null, booleans; depth <= 3) '
        'written as JSON, Python-literal, YAML or TOML text; literal specs generated from the target (path strings with hits and misses, '
        'dicts, one-element lists, tuples, nested; constants that are not specs) as Python-literal or JSON text; every combination of '
        'spec source {argument, --spec-file, none} x target source {argument, --target-file, standard input, "-", none} incl. the '
        'conflicting and unreadable ones; --indent in {default, 0, 1, 4, -1}; --scalar; unknown formats; malformed target and spec texts; '
        'a stream of hostile spec texts (calls, attribute chains, lambdas, comprehensions, f-strings, dunder tricks, names such as T and S) '
        'each carrying a planted side effect (creating a marker file). Run in-process through glom.cli.main with captured streams, and '
        'a sample through `python -m glom` as a subprocess. Observed: standard output byte for byte, exit status / usage error / '
        'exception class; on the implementation side also: stdout == json.dumps(glom.glom(target, spec), indent=..., sort_keys=True) '
        'computed by calling the library directly, the marker file does not exist. Non-trivial: nested spec, or a non-default source / '
        'format / flag, or an error outcome.')
ASSUMPTIONS = ['the parsers (ast.literal_eval, json.loads, yaml.safe_load, tomllib.loads) and face\'s flag parsing are outside the model: what a '
               'parser returns for a text is computed by calling it and handed to the model as an oracle table',
               'floats and non-ASCII text are not generated; --debug / --inspect (interactive) are not exercised']
SHARD = 150

WORK = '/verif/_work/c19_%d' % os.getpid()
MARK = WORK + '/pwned'


def cstr_any(s):
    if any((ord(c) > 126 or ord(c) < 32) and c != '\n' for c in s):
        raise pyval.Unrepresentable('non-ascii text')
    return '"%s"' % s.replace('"', '""')


# ---------- literal specs ----------
def lit_ir(o):
    """a Python literal read as a glom spec -> spec IR"""
    if isinstance(o, str):
        return ['Str', o]
    if isinstance(o, dict):
        items = []
        for k, v in o.items():
            items.append([['Str', k] if isinstance(k, str) else ['Lit', k], lit_ir(v)])
        return ['Dict', False, items]
    if isinstance(o, list):
        return ['List', [lit_ir(x) for x in o]]
    if isinstance(o, tuple):
        return ['Tuple', [lit_ir(x) for x in o]]
    if o is None or isinstance(o, (bool, int)):
        return ['Lit', o]
    raise pyval.Unrepresentable(type(o).__name__)


def val_ir(o, counter):
    """a loaded target -> value IR with fresh labels"""
    if o is None or isinstance(o, (bool, int, str)):
        return o
    counter[0] += 1
    i = counter[0]
    if isinstance(o, dict):
        if not all(isinstance(k, str) for k in o):
            raise pyval.Unrepresentable('non-str key')
        return {'k': 'dict', 'od': False, 'id': i, 'items': [[k, val_ir(v, counter)] for k, v in o.items()]}
    if isinstance(o, list):
        return {'k': 'list', 'id': i, 'items': [val_ir(v, counter) for v in o]}
    if isinstance(o, tuple):
        return {'k': 'tuple', 'id': i, 'items': [val_ir(v, counter) for v in o]}
    raise pyval.Unrepresentable(type(o).__name__)


# ---------- generation ----------
KEYS = ['a', 'b', 'c', 'name', 'x y', 'q"t', 'back\\slash', 'Z', '0', 'k1']


def gen_target(r, depth):
    c = r.random()
    if depth <= 0 or c < 0.25:
        return r.choice([0, 1, -7, 42, 'v', 'two words', 'q"uote', '', None, True, False, 'a\\b'])
    if c < 0.7:
        ks = r.sample(KEYS, r.randint(0, 4))
        return {k: gen_target(r, depth - 1) for k in ks}
    return [gen_target(r, depth - 1) for _ in range(r.randint(0, 3))]


def paths_of(t, prefix=''):
    out = []
    if isinstance(t, dict):
        for k, v in t.items():
            if '.' in k:
                continue
            p = prefix + k
            out.append(p)
            out.extend(paths_of(v, p + '.'))
    elif isinstance(t, list):
        for i, v in enumerate(t):
            p = prefix + str(i)
            out.append(p)
            out.extend(paths_of(v, p + '.'))
    return out


def gen_spec(r, t, depth):
    ps = paths_of(t)
    c = r.random()
    if depth <= 0 or c < 0.35:
        if ps and r.random() < 0.85:
            return r.choice(ps)
        return r.choice(['zz', 'a.zz', '0', 'a.b.c.d'])
    if c < 0.65:
        return {r.choice(['out', 'x', 'k"q', 'B', 'a']) + str(i): gen_spec(r, t, depth - 1) for i in range(r.randint(1, 3))}
    if c < 0.8:
        # (path to a list, [subspec])
        lists = [p for p in ps if isinstance(_get(t, p), list)]
        if lists:
            p = r.choice(lists)
            items = _get(t, p)
            sub = gen_spec(r, items[0], depth - 1) if items and isinstance(items[0], (dict, list)) and paths_of(items[0]) else r.choice(['zz', 'a'])
            return (p, [sub])
        return (r.choice(ps) if ps else 'zz',)
    if c < 0.92:
        first = r.choice(ps) if ps else 'zz'
        inner = _get(t, first) if ps else None
        return (first, gen_spec(r, inner, depth - 1) if isinstance(inner, (dict, list)) and paths_of(inner) else 'zz')
    return r.choice([5, None, True, [], ['a', 'b'], {'k': 5}, ()])


def _get(t, p):
    for seg in p.split('.'):
        t = t[int(seg)] if isinstance(t, list) else t[seg]
    return t


def to_toml(t):
    """TOML text of a dict target whose values are ints / strings / booleans / lists / dicts (no None)"""
    def v(x):
        if isinstance(x, bool):
            return 'true' if x else 'false'
        if isinstance(x, int):
            return str(x)
        if isinstance(x, str):
            return json.dumps(x)
        if isinstance(x, list):
            return '[' + ', '.join(v(y) for y in x) + ']'
        if isinstance(x, dict):
            return '{' + ', '.join('%s = %s' % (json.dumps(k), v(y)) for k, y in x.items()) + '}'
        raise ValueError('no TOML for %r' % (x,))
    return '\n'.join('%s = %s' % (json.dumps(k), v(x)) for k, x in t.items()) + '\n'


def has_none(t):
    if t is None:
        return True
    if isinstance(t, dict):
        return any(has_none(v) for v in t.values())
    if isinstance(t, list):
        return any(has_none(v) for v in t)
    return False


HOSTILE = [
    "__import__('os').system('touch %(m)s')",
    "[__import__('os').system('touch %(m)s')]",
    "{'a': open('%(m)s', 'w')}",
    "(lambda: open('%(m)s', 'w'))()",
    "[x for x in [open('%(m)s', 'w')]]",
    "{'k': [c for c in ().__class__.__bases__[0].__subclasses__()]}",
    "(T, open('%(m)s', 'w'))",
    "T.__class__",
    "S",
    "Call(open, args=('%(m)s', 'w'))",
    "Invoke(open).constants('%(m)s', 'w')",
    "[f'{open(\"%(m)s\", \"w\")}']",
    "{'a': eval(\"open('%(m)s', 'w')\")}",
    "'a' + str(open('%(m)s', 'w'))",
    "[1].__class__(open('%(m)s', 'w'))",
    "{'a': 1 if open('%(m)s', 'w') else 2}",
    "glom.glom({}, Call(open, args=('%(m)s', 'w')))",
    "(open)('%(m)s', 'w')",
    "{**{'a': open('%(m)s', 'w')}}",
    "[*open('%(m)s', 'w')]",
    "open('%(m)s','w')",
    "\"a\" if open('%(m)s','w') else \"b\"",
]


def gen_scalar_container_case(r):
    """--scalar with a result that is a container only Python-literal targets can hold (a tuple, possibly empty or nested)"""
    tup = r.choice([(1, 2), (), ('x',), ((1,), 2), (None, True)])
    t = {'a': {'b': tup}, 'l': [tup], 'n': 5}
    spec = r.choice(['a.b', 'a.b', 'l.0', ('a', 'b'), 'n', 'a'])
    c = {'kind': 'run', 'target': t, 'indent': r.choice([None, 0, 4]), 'scalar': True, 'tfmt': 'python', 'sfmt': 'python', 'via': 'inproc',
         'spec_text': spec if isinstance(spec, str) else repr(spec), 'target_text': repr(t), 'spec_src': 'arg',
         'target_src': r.choice(['arg', 'file', 'stdin'])}
    return c


YAML_WS = [("body: |\n  line one\n  line two\n", 'body'), ("k: |+\n  text\n\n", 'k'), ("- >\n  folded text\n", '0'),
           ("  a: 1\n  b: 2\n", 'a'), ("\n\na: 1\n", 'a'), ("a: 'x '\n", 'a'), ("t: |-\n  kept\n  \n", 't'), ("  - 1\n  - 2\n", '1')]


def gen_yaml_whitespace_case(r):
    """YAML documents whose leading / trailing whitespace is part of the data (block scalars at the end, an indented first line):
    the target text is loaded as it is"""
    text, spec = r.choice(YAML_WS)
    import yaml
    return {'kind': 'run', 'target': yaml.safe_load(text), 'indent': r.choice([None, 0]), 'scalar': r.random() < 0.3, 'tfmt': r.choice(['yaml', 'yml']),
            'sfmt': 'python', 'via': 'inproc', 'spec_text': spec, 'target_text': text, 'spec_src': 'arg',
            'target_src': r.choice(['arg', 'file', 'stdin'])}


def gen_case(r):
    if r.random() < 0.04:
        return gen_scalar_container_case(r)
    if r.random() < 0.04:
        return gen_yaml_whitespace_case(r)
    t = gen_target(r, 3)
    if not isinstance(t, (dict, list)) and r.random() < 0.7:
        t = {'a': t}                      # otherwise a top-level scalar (0, '', null, false, ...): only Path() / () specs make sense
    c = {'kind': 'run', 'target': t, 'indent': r.choice([None, None, 0, 1, 4, -1]), 'scalar': r.random() < 0.2,
         'tfmt': 'json', 'sfmt': r.choice(['python', 'python', 'python', 'json']), 'via': 'inproc'}
    x = r.random()
    if x < 0.12:
        c['tfmt'] = 'python'
    elif x < 0.22:
        c['tfmt'] = r.choice(['yaml', 'yml'])
    elif x < 0.30 and isinstance(t, dict) and not has_none(t):
        c['tfmt'] = 'toml'
    elif x < 0.33:
        c['tfmt'] = r.choice(['xml', 'JSON', ''])
    spec = gen_spec(r, t, r.choice([0, 1, 2, 2, 3]))
    if not isinstance(t, (dict, list)) or (not t and r.random() < 0.6):
        spec = r.choice([(), (), {'n': ()}, [()], 'zz'])
    if c['sfmt'] == 'json':
        try:
            c['spec_text'] = json.dumps(_tuples_to_lists_forbidden(spec))
        except ValueError:
            c['sfmt'] = 'python'
    if c['sfmt'] == 'python':
        c['spec_text'] = repr(spec)
        if isinstance(spec, str) and r.random() < 0.7 and spec and spec[0] not in '"\'[{(':
            c['spec_text'] = spec                 # a bare word
    y = r.random()
    if y < 0.06:
        c['sfmt'] = r.choice(['python-full', 'yaml', 'py'])
    # target text
    if c['tfmt'] == 'python':
        c['target_text'] = repr(t)
    elif c['tfmt'] in ('yaml', 'yml'):
        import yaml
        c['target_text'] = yaml.safe_dump(t, default_flow_style=r.random() < 0.5)
    elif c['tfmt'] == 'toml':
        c['target_text'] = to_toml(t)
    else:
        c['target_text'] = json.dumps(t)
    z = r.random()
    if z < 0.06:
        c['target_text'] = r.choice(['{bad', '[1, 2', '{"a": }', 'nope', "{'a': 1}", '- a\n  b: [', 'a = ',
                                     # well-formed texts that cannot be BUILT: the loaders fail with TypeError / AttributeError, not a syntax error
                                     '{[1]: 2}', '{"a": {{}}}', '{"a": {[]}}', 'a: !!timestamp nope'])
    elif z < 0.09:
        c['target_text'] = ''
    # sources
    c['spec_src'] = r.choice(['arg'] * 8 + ['file', 'file', 'file', 'none', 'both', 'missing-file'])
    c['target_src'] = r.choice(['arg'] * 5 + ['file'] * 4 + ['stdin'] * 4 + ['arg+stdin', 'arg+stdin', 'dash-arg', 'dash-file', 'none', 'both',
                                                                           'missing-file', 'tty'])
    if c['spec_src'] in ('none', 'file', 'missing-file') and c['target_src'] in ('arg', 'both', 'dash-arg', 'arg+stdin'):
        # a target argument needs a spec argument before it
        c['target_src'] = 'file'
    if r.random() < 0.03:
        c['extra_arg'] = True
    return c


def _tuples_to_lists_forbidden(o):
    if isinstance(o, tuple):
        raise ValueError('tuple')
    if isinstance(o, dict):
        return {k: _tuples_to_lists_forbidden(v) for k, v in o.items()}
    if isinstance(o, list):
        return [_tuples_to_lists_forbidden(v) for v in o]
    return o


def gen_hostile(r):
    text = r.choice(HOSTILE) % {'m': MARK}
    return {'kind': 'run', 'hostile': True, 'target': {'a': 1, 'T': {'__class__': 2}}, 'indent': None, 'scalar': False, 'tfmt': 'json',
            'sfmt': r.choice(['python', 'python', 'python', 'json']), 'spec_text': text, 'target_text': '{"a": 1, "T": {"__class__": 2}}',
            'spec_src': 'arg', 'target_src': r.choice(['arg', 'file', 'stdin']), 'via': 'inproc'} if r.random() < 0.6 else {
            'kind': 'run', 'hostile': True, 'target': {'a': 1}, 'indent': None, 'scalar': False, 'tfmt': 'json', 'sfmt': 'python',
            'spec_text': text, 'target_text': '{"a": 1}', 'spec_src': 'file', 'target_src': r.choice(['file', 'stdin']), 'via': 'inproc'}


def corpus():
    base = {'kind': 'run', 'target': {'a': {'b': [1, 2, {'c': 'd'}]}, 'z': None}, 'indent': None, 'scalar': False, 'tfmt': 'json', 'sfmt': 'python',
            'spec_text': "{'x': 'a.b.2.c', 'y': ('a.b', ['c'])}", 'target_text': '{"a": {"b": [1, 2, {"c": "d"}]}, "z": null}',
            'spec_src': 'arg', 'target_src': 'arg', 'via': 'inproc'}
    out = [base]
    for k, v in [('target_src', 'file'), ('target_src', 'stdin'), ('spec_src', 'file'), ('indent', 0), ('via', 'subprocess')]:
        c = dict(base)
        c[k] = v
        if k == 'spec_src':
            c['target_src'] = 'file'
        out.append(c)
    c = dict(base)
    c.update(spec_text='a.q')
    out.append(c)
    c = dict(base)
    c.update(spec_text='z', scalar=True)
    out.append(c)
    for i in range(len(HOSTILE)):
        h = gen_hostile(_Fixed(i))
        out.append(h)
    # well-formed target texts that cannot be BUILT (unhashable dict key / set element in a Python literal, a YAML tag that does not
    # apply): the loader fails with TypeError / AttributeError rather than a syntax error — still a usage error, from every source
    for fmt, text in (('python', '{[1]: 2}'), ('python', '{"a": {{}}}'), ('python', '{"a": {[]}}'), ('yaml', 'a: !!timestamp nope')):
        for src in ('arg', 'file', 'stdin'):
            c = dict(base)
            c.update(tfmt=fmt, target_text=text, target_src=src, spec_text='a')
            out.append(c)
    return out


class _Fixed:
    def __init__(self, i):
        self.i = i

    def choice(self, seq):
        return seq[self.i % len(seq)]

    def random(self):
        return 0.5


def generate(rng, tier):
    n, nh, nsub = (700, 120, 40) if tier == 'quick' else (6000, 800, 300)
    out = [gen_case(rng) for _ in range(n)] + [gen_hostile(rng) for _ in range(nh)]
    for c in out[:nsub]:
        c['via'] = 'subprocess'
    return out


# ---------- running ----------
class FakeTTY(io.StringIO):
    def isatty(self):
        return True

    def read(self, *a):
        raise RuntimeError('read from a terminal')


def materialise(case):
    """argv, stdin text (None: terminal), files written"""
    os.makedirs(WORK, exist_ok=True)
    files = {}
    argv = []
    stdin = None
    if case['tfmt'] != 'json' or True:
        argv += ['--target-format', case['tfmt']]
    if case['sfmt'] != 'python':
        argv += ['--spec-format', case['sfmt']]
    if case['indent'] is not None:
        argv += ['--indent', str(case['indent'])]
    if case['scalar']:
        argv += ['--scalar']
    ss, ts = case['spec_src'], case['target_src']
    if ss in ('file', 'both'):
        p = WORK + '/spec.txt'
        files[p] = case['spec_text']
        argv += ['--spec-file', p]
    elif ss == 'missing-file':
        argv += ['--spec-file', WORK + '/no-such-spec']
    if ts in ('file', 'both'):
        p = WORK + '/target.txt'
        files[p] = case['target_text']
        argv += ['--target-file', p]
    elif ts == 'missing-file':
        argv += ['--target-file', WORK + '/no-such-target']
    elif ts == 'dash-file':
        argv += ['--target-file', '-']
        stdin = case['target_text']
    pos = []
    if ss in ('arg', 'both'):
        pos.append(case['spec_text'])
    if ts in ('arg', 'both', 'arg+stdin'):
        pos.append(case['target_text'])
        if ts == 'arg+stdin':
            stdin = '{"from": "stdin"}'
    elif ts == 'dash-arg':
        pos.append('-')
        stdin = case['target_text']
    elif ts == 'stdin':
        stdin = case['target_text']
    elif ts in ('none', 'file', 'missing-file') and stdin is None:
        stdin = None if ts != 'file' else None
    if ts == 'tty':
        stdin = None
    if case.get('extra_arg'):
        pos = (pos + ['x', 'y', 'z'])[:3]
    return argv + pos, pos, stdin, files


def run_impl(case):
    from glom import cli
    argv, pos, stdin, files = materialise(case)
    for p, text in files.items():
        with open(p, 'w') as f:
            f.write(text)
    if os.path.exists(MARK):
        os.remove(MARK)
    out = {}
    if case['via'] == 'subprocess' and stdin is not None:
        env = dict(os.environ, PYTHONPATH='/repo')
        p = subprocess.run([sys.executable, '-m', 'glom'] + argv, input=stdin, capture_output=True, text=True, env=env, cwd='/repo', timeout=60)
        out['stdout'] = p.stdout
        if p.returncode in (0,):
            out['ended'] = ['status', 0]
        elif p.stderr.startswith('error: '):
            out['ended'] = ['usage']
        elif 'Traceback (most recent call last)' in p.stderr:
            last = [l for l in p.stderr.strip().splitlines() if l and not l.startswith(' ')][-1]
            out['ended'] = ['exception', last.split(':')[0].split('.')[-1]]
        else:
            out['ended'] = ['status', p.returncode]
    else:
        so, se = io.StringIO(), io.StringIO()
        old = sys.stdin
        sys.stdin = io.StringIO(stdin) if stdin is not None else FakeTTY()
        try:
            with contextlib.redirect_stdout(so), contextlib.redirect_stderr(se):
                rc = cli.main(['glom'] + argv)
            out['ended'] = ['status', rc or 0]
        except SystemExit as e:
            out['ended'] = ['usage'] if se.getvalue().startswith('error: ') else ['status', e.code or 0]
        except Exception as e:
            out['ended'] = ['exception', type(e).__name__]
        finally:
            sys.stdin = old
        out['stdout'] = so.getvalue()
    out['marker'] = os.path.exists(MARK)
    # the library called directly on what the parsers give
    out['library'] = library_answer(case, pos)
    return out


def parse_spec(fmt, text):
    try:
        if fmt == 'python':
            return ['good', ast.literal_eval(text)]
        if fmt == 'json':
            return ['good', json.loads(text)]
    except Exception as e:
        return ['bad', type(e).__name__]
    return None


def parse_target(fmt, text):
    try:
        if fmt == 'json':
            return ['good', json.loads(text)]
        if fmt == 'python':
            return ['good', ast.literal_eval(text)]
        if fmt in ('yaml', 'yml'):
            import yaml
            return ['good', yaml.safe_load(text)]
        if fmt == 'toml':
            import tomllib
            return ['good', tomllib.loads(text)]
    except Exception as e:
        return ['bad', type(e).__name__]
    return None


def library_answer(case, pos):
    """json.dumps(glom(target, spec), indent=..., sort_keys=True) computed by calling the library directly — only for the plain
    situation in which both texts are delivered and parse"""
    import glom
    if (case['spec_src'] == 'file' and case['target_src'] in ('arg', 'dash-arg')) or case['spec_src'] not in ('arg', 'file') or case['target_src'] not in ('arg', 'file', 'stdin', 'dash-arg', 'dash-file', 'arg+stdin') \
            or case.get('extra_arg') or case['sfmt'] not in ('python', 'json') or not case['spec_text'] or not case['target_text']:
        return None
    text = case['spec_text']
    if case['sfmt'] == 'python' and text[0] not in '"\'[{(':
        spec = text
    else:
        ps = parse_spec(case['sfmt'], text)
        if ps is None or ps[0] != 'good':
            return None
        spec = ps[1]
    pt = parse_target(case['tfmt'], case['target_text'])
    if pt is None or pt[0] != 'good':
        return None
    try:
        res = glom.glom(pt[1], spec)
    except glom.GlomError as e:
        return {'glomerror': type(e).__name__}
    except Exception as e:
        return {'exception': type(e).__name__}
    if case['scalar'] and (res is None or isinstance(res, (bool, int, str))):
        return {'stdout': str(res)}
    try:
        return {'stdout': json.dumps(res, indent=case['indent'] if case['indent'] not in (None, 0) else (2 if case['indent'] is None else None),
                                     sort_keys=True) + '\n'}
    except Exception as e:
        return {'exception': type(e).__name__}


# ---------- Coq side ----------
def flags_coq(case, argv):
    def flag(name):
        return cstr_any(argv[argv.index(name) + 1]) if name in argv else None
    tf, sf = flag('--target-file'), flag('--spec-file')
    return '(mkFlags %s %s %s %s %s %s)' % ('None' if tf is None else '(Some %s)' % tf, cstr_any(case['tfmt']),
                                            'None' if sf is None else '(Some %s)' % sf, cstr_any(case['sfmt']),
                                            cz(2 if case['indent'] is None else case['indent']), cbool(case['scalar']))


def coq_case(case, out):
    if 'harness_error' in out or 'harness_timeout' in out:
        return BAD
    try:
        argv, pos, stdin, files = materialise(case)
        sp, tp = [], []
        for fmt in ('python', 'json'):
            ps = parse_spec(fmt, case['spec_text']) if case['spec_text'] else None
            if ps is not None:
                if ps[0] == 'good':
                    try:
                        sp.append('((%s, %s), PGood %s)' % (cstr_any(fmt), cstr_any(case['spec_text']), pyspec.spec_coq(lit_ir(ps[1]))))
                    except pyval.Unrepresentable:
                        pass
                else:
                    sp.append('((%s, %s), PBad %s)' % (cstr_any(fmt), cstr_any(case['spec_text']), cstr_any(ps[1])))
        texts = {case['target_text']}
        for text in texts:
            for fmt in ('json', 'python', 'yaml', 'toml'):
                if not text:
                    continue
                pt = parse_target(fmt, text)
                if pt[0] == 'good':
                    try:
                        tp.append('((%s, %s), PGood %s)' % (cstr_any(fmt), cstr_any(text), pyval.val_coq(val_ir(pt[1], [0]))))
                    except pyval.Unrepresentable:
                        pass
                else:
                    tp.append('((%s, %s), PBad %s)' % (cstr_any(fmt), cstr_any(text), cstr_any(pt[1])))
        world = '(mkWorld %s %s %s %s)' % (clist('(%s, %s)' % (cstr_any(p), cstr_any(t)) for p, t in files.items()),
                                           'None' if stdin is None else '(Some %s)' % cstr_any(stdin), clist(sp), clist(tp))
        e = out['ended']
        ended = {'status': lambda: '(EStatus %s)' % cz(e[1]), 'usage': lambda: 'EUsageError',
                 'exception': lambda: '(EException %s)' % cstr_any(e[1])}[e[0]]()
        return '(mkCli %s %s %s %s %s)' % (world, flags_coq(case, argv), clist(cstr_any(p) for p in pos), cstr_any(out['stdout']), ended)
    except pyval.Unrepresentable:
        return BAD


BAD = '(mkCli (mkWorld [] None [] []) (mkFlags None "json" None "python-full" 2 false) ["x"] "" (EStatus 0))'


def model_dump_term(case):
    return 'cli_model %s' % coq_case(case, {'ended': ['status', 0], 'stdout': ''})


def direct_oracle(case, out):
    if out.get('marker'):
        return 'the spec text was executed: the planted marker file exists'
    lib = out.get('library')
    if lib and 'ended' in out:
        e = out['ended']
        if 'stdout' in lib and (e != ['status', 0] or out['stdout'] != lib['stdout']):
            return 'the command printed %r (%r), the library gives %r' % (out['stdout'][:200], e, lib['stdout'][:200])
        if 'glomerror' in lib and (e != ['status', 1] or not out['stdout'].startswith(lib['glomerror'] + ': ')):
            return 'a %s from the library did not become status 1 with a message naming it: %r %r' % (lib['glomerror'], e, out['stdout'][:80])
    if case.get('hostile') and out.get('ended') == ['status', 0] and case['sfmt'] == 'python' and case['spec_text'][0] in '"\'[{(':
        ps = parse_spec('python', case['spec_text'])
        if ps and ps[0] == 'bad':
            return 'a spec text that is not a Python literal produced a result'
    return None


def nontrivial(case, out):
    return (case.get('hostile') or case['spec_src'] != 'arg' or case['target_src'] != 'arg' or case['tfmt'] != 'json' or case['sfmt'] != 'python'
            or case['indent'] is not None or case['scalar'] or out.get('ended') != ['status', 0] or not isinstance(parse_spec('python', case['spec_text']) and parse_spec('python', case['spec_text'])[1], str))


def classify(case, out):
    e = out.get('ended', ['harness'])
    return '%s|%s|%s>%s|%s' % ('hostile' if case.get('hostile') else case['tfmt'] + '/' + case['sfmt'], case['via'], case['spec_src'], case['target_src'],
                               e[0] + (str(e[1]) if len(e) > 1 else ''))


def python_snippet(case):
    return ('import sys; sys.path.insert(0, "/verif/harness"); sys.path.insert(0, "/repo")\n'
            'import props.c19 as p; print(p.run_impl(%r))' % (case,))
