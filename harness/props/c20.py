"""C20 — concurrent and re-entrant glom calls behave exactly as when run alone."""
import itertools
import sys
import threading
import warnings

import pyspec
import pyval
import sched
from lib import cstr, cbool, clist, cz, cnat
from specgen import SpecGen
from props.c04 import positions, get_at, set_at
from props.c06 import path_obs

ID = 'C20'
PROPERTY_FILE = 'Properties/C20'
MODEL_FILES = ['Model/Cache', 'Model/Sched', 'Corr/Cache', 'Corr/Sched']
GENERATED_DEPS = ['CacheOps.v']
COQ_HEADER = ('From Coq Require Import String ZArith List.\nImport ListNotations.\n'
              'From Glom Require Import Base.PyVal Model.TEval Model.Cache Model.Sched Corr.Cache Corr.Sched.\nLocal Open Scope string_scope.\n')
CHECK_FN = 'any_check'
RULE = ('(a) dict-operation interleavings: 2-3 real threads each making 1-3 Path.from_text calls over a small alphabet, Path._CACHE '
        'replaced by dicts whose __contains__ / __len__ / __setitem__ / __getitem__ are yield points of a deterministic scheduler, '
        '_MAX_CACHE 0..3, random schedules and (thorough tier) ALL interleavings of two single-call threads, replayed step by step on the '
        'Coq machine: every returned Path and the final key order; the same for TargetRegistry.get_handler on a fresh registry whose _type_cache is such a dict (no length test, failed lookups not stored): every returned handler and the final key order. (b) call interleavings: 2-3 concurrent glom evaluations of '
        'type-directed specs with up to 4 yield points each planted as callables at random evaluation positions, driven through random '
        'and (for two calls with <= 3 yield points) all interleavings; every call\'s value / exception class / full error-trace text compared with '
        'the same call run alone; a third of these share ONE spec object between the calls, with a dict / list literal in argument position around the yield point. (c) re-entrancy (also a callable re-entering glom with the very spec object it belongs to, over trees): glom called from a callable inside a running glom call, nested to depth 3, inner '
        'failures caught by an outer Coalesce or propagating: the inner calls\' outcomes and trace texts equal their isolated runs and the '
        'outer call equals the outer call given the isolated inner outcome. (d) thorough tier: free-running threads under '
        'sys.setswitchinterval(1e-6) hammering a pool of calls, outcomes compared with the isolated ones (supporting evidence only). '
        'Non-trivial: every case (each has >= 2 threads or a nested call).')
ASSUMPTIONS = ['single dict operations are atomic (the GIL); free-running preemption inside glom cannot be enumerated and is only sampled in (d)',
               'PATH_STAR and type registrations do not change while calls are running']
SHARD = 300

TEXTS = ['a', 'b', 'a.b', '*', 'a.*', 'c.d.e', '']


# ---------- (a) dict-operation interleavings ----------
def run_dictops(case):
    import glom.core as core
    P = core.Path
    saved = (P._CACHE, P._MAX_CACHE, core.PATH_STAR, P._STAR_WARNED)
    ctl = sched.Controller()
    out = {}
    try:
        P._CACHE = {True: sched.SchedDict(ctl), False: sched.SchedDict(ctl)}
        P._MAX_CACHE = case['max']
        core.PATH_STAR = case['star']

        def worker(texts):
            def run():
                res = []
                for t in texts:
                    with warnings.catch_warnings():
                        warnings.simplefilter('ignore')
                        res.append(path_obs(P.from_text(t)))
                return res
            return run
        ctl.start([worker(ts) for ts in case['threads']])
        for tid in case['schedule']:
            ctl.grant(tid)
        for tid in range(len(case['threads'])):
            ctl.finish(tid)
        ctl.join()
        out['seen'] = [[[c, s] for c, s in ctl.results.get(tid, [])] for tid in range(len(case['threads']))]
        out['errors'] = {str(k): type(v).__name__ for k, v in ctl.errors.items()}
        out['keys'] = list(dict.keys(P._CACHE[case['star']]))
    finally:
        P._CACHE, P._MAX_CACHE, core.PATH_STAR, P._STAR_WARNED = saved
    return out


# ---------- (a') the registry memo under the same scheduler ----------
class _U:
    pass


REG_OBJS = {'dict': lambda: {}, 'list': lambda: [], 'tuple': lambda: (), 'int': lambda: 5, 'str': lambda: 'x', '_U': lambda: _U(),
            'OrderedDict': lambda: __import__('collections').OrderedDict()}


def _tag(h):
    return getattr(h, '__name__', None) or repr(h)[:30]


def _lookup(reg, key):
    tname, op = key.split('|')
    import glom
    try:
        return _tag(reg.get_handler(op, REG_OBJS[tname]()))
    except glom.core.UnregisteredTarget:
        return None


def run_regops(case):
    import glom.core as core
    keys = sorted({k for th in case['threads'] for k in th})
    fresh = {k: _lookup(core.TargetRegistry(), k) for k in keys}       # a registry that is never looked at twice
    reg = core.TargetRegistry()
    ctl = sched.Controller()
    reg._type_cache = sched.SchedDict(ctl)

    def worker(ks):
        return lambda: [_lookup(reg, k) for k in ks]
    ctl.start([worker(ks) for ks in case['threads']])
    for tid in case['schedule']:
        ctl.grant(tid)
    for tid in range(len(case['threads'])):
        ctl.finish(tid)
    ctl.join()
    out = {'answers': [[k, fresh[k]] for k in keys],
           'seen': [ctl.results.get(tid) for tid in range(len(case['threads']))],
           'errors': {str(k): type(v).__name__ for k, v in ctl.errors.items()},
           'keys': ['%s|%s' % (t.__name__, op) for (t, op) in dict.keys(reg._type_cache)]}
    return out


# ---------- (b) call interleavings ----------
class Gates:
    def __init__(self):
        self.ctl = None

    def make_repr(self, n):
        """a callable spec whose repr() is a yield point: rendering an error trace that shows it can be interleaved"""
        outer = self

        class ReprGate:
            def __call__(self, t):
                return t

            def __repr__(self):
                if outer.ctl is not None:
                    outer.ctl.point()
                return 'ReprGate(%d)' % n
        return ReprGate()

    def make(self, n):
        def gate(t):
            if self.ctl is not None:
                self.ctl.point()
            return t
        gate.__name__ = 'gate%d' % n
        return gate


def outcome(fn):
    try:
        return ['ok', fn()]
    except Exception as e:
        origin = getattr(e, '_GlomError__wrapped', None)
        # the error is still an instance of the class that was raised (classes are objects: two may share a __name__)
        keeps = True if origin is None else isinstance(e, type(origin))
        return ['raise', type(e).__name__, str(e)] + ([] if keeps else ['NOT an instance of the raised class %s.%s' % (type(origin).__module__, type(origin).__qualname__)])


def build_calls(case, gates):
    """(thunk, encode) per call; gates are planted as ['Fn', ['gate', n]] nodes which pyspec cannot build: replace by marker"""
    calls = []
    shared = None
    for c in case['calls']:
        r = pyval.Realiser()
        target = r.build(c['target'])
        if case.get('shared_spec'):
            # ONE spec object used by every call (specs are usually module-level constants)
            if shared is None:
                shared = build_with_gates(c['spec'], r, gates)
            spec = shared
        else:
            spec = build_with_gates(c['spec'], r, gates)
        calls.append((r, target, spec))
    return calls


def build_with_gates(ir, r, gates):
    """pyspec.build with gate callables: gate nodes are ['Fn', ['gate', n]]"""
    orig = pyval.fn_of

    def fn_of(desc):
        if desc[0] == 'gate':
            return gates.make(desc[1])
        if desc[0] == 'reprgate':
            return gates.make_repr(desc[1])
        if desc[0] == 'visit':
            # a callable that records what it sees in a container handed to it: the container is the call's own
            def visit(x, acc):
                if isinstance(acc, dict):
                    acc[x] = len(acc)
                    return sorted(acc)
                if isinstance(acc, set):
                    acc.add(x)
                    return sorted(acc)
                acc.append(x)
                return list(acc)
            return visit
        return orig(desc)
    pyval.fn_of = fn_of
    pyspec.fn_of = fn_of
    try:
        return pyspec.build(ir, r)
    finally:
        pyval.fn_of = orig
        pyspec.fn_of = orig


def run_calls(case):
    import glom
    gates = Gates()
    calls = build_calls(case, gates)

    def thunk(i):
        r, target, spec = calls[i]
        return lambda: r.encode(glom.glom(target, spec))
    fresh = None
    if case.get('shared_spec'):
        # every call through a spec object of its own, built for it and used once
        fresh = []
        for c in case['calls']:
            r0 = pyval.Realiser()
            t0, s0 = r0.build(c['target']), build_with_gates(c['spec'], r0, gates)
            fresh.append(outcome(lambda: r0.encode(glom.glom(t0, s0))))
    # alone, one after the other
    alone = [outcome(thunk(i)) for i in range(len(calls))]
    # together, under the schedule
    ctl = sched.Controller()
    gates.ctl = ctl
    ctl.start([(lambda i=i: outcome(thunk(i))) for i in range(len(calls))])
    for tid in case['schedule']:
        ctl.grant(tid)
    for tid in range(len(calls)):
        ctl.finish(tid)
    ctl.join()
    gates.ctl = None
    together = [ctl.results.get(i, ['thread-error', type(ctl.errors.get(i)).__name__]) for i in range(len(calls))]
    problems = []
    for i, (a, b) in enumerate(zip(alone, together)):
        if a != b:
            problems.append('call %d alone %r, interleaved %r' % (i, _short(a), _short(b)))
        for which, o in (('alone', a), ('interleaved', b)):
            if o[0] == 'raise' and len(o) > 3:
                problems.append('call %d %s: %s' % (i, which, o[3]))
    if fresh is not None:
        for i, (a, b) in enumerate(zip(fresh, alone)):
            # the two spec objects hold different function objects: addresses in error texts are not compared
            if _noaddr(a) != _noaddr(b) and 'ReprGate' not in repr(a):
                problems.append('call %d through the shared spec object %r, through a spec object of its own %r' % (i, _short(b), _short(a)))
    return {'problems': problems, 'n': len(calls), 'kinds': [a[0] for a in alone]}


def _noaddr(o):
    import re
    return re.sub(r'0x[0-9a-f]+', '0x', repr(o))


def _short(o):
    return [str(x)[:300] for x in o]


# ---------- (c) re-entrancy ----------
def run_reentrant(case):
    """levels: list of {target-independent spec IR with one hole}, innermost first; the hole of level k+1 is a callable that runs
    glom(t, level k) — or, in the reference run, returns / raises the isolated outcome of level k"""
    import glom
    r = pyval.Realiser()
    target = r.build(case['target'])
    levels = case['levels']
    problems = []
    seen_inner = {}

    def build_level(k, nested):
        ir = levels[k]
        if k == 0:
            return pyspec.build(ir, r)
        inner_spec = build_level(k - 1, nested)

        def call_inner(t):
            if nested:
                try:
                    v = glom.glom(t, inner_spec)
                    seen_inner[k - 1] = ['ok', r.encode(v)]
                    return v
                except Exception as e:
                    seen_inner[k - 1] = ['raise', type(e).__name__, str(e)]
                    raise
            o = isolated[k - 1]
            if o[0] == 'ok':
                return o[2]
            raise o[3]
        call_inner.__name__ = 'call_level%d' % (k - 1)
        return fill_hole(ir, call_inner, r)

    isolated = {}
    # isolated outcomes, innermost first: level k run alone on the target with level k-1 replaced by its isolated outcome
    for k in range(len(levels)):
        spec = build_level(k, nested=False)
        try:
            v = glom.glom(target, spec)
            isolated[k] = ['ok', r.encode(v), v, None]
        except Exception as e:
            isolated[k] = ['raise', type(e).__name__, None, e, str(e)]
    # the real nested run
    spec = build_level(len(levels) - 1, nested=True)
    try:
        v = glom.glom(target, spec)
        final = ['ok', r.encode(v)]
    except Exception as e:
        final = ['raise', type(e).__name__, trace_part(e)]
    top = isolated[len(levels) - 1]
    expect = ['ok', top[1]] if top[0] == 'ok' else ['raise', top[1], trace_part(top[3])]
    if final != expect:
        problems.append('nested run %r, composition of isolated runs %r' % (_short(final), _short(expect)))
    for k, o in seen_inner.items():
        iso = isolated[k]
        exp = ['ok', iso[1]] if iso[0] == 'ok' else ['raise', iso[1], iso[4]]
        # an inner level runs on whatever target reaches it; it is comparable when that is the root target (chains start with T)
        if case.get('inner_on_root', True) and o[:2] != exp[:2]:
            problems.append('inner level %d nested %r, alone %r' % (k, _short(o), _short(exp)))
    return {'problems': problems, 'final': final[0], 'inner': {str(k): v[0] for k, v in seen_inner.items()}}


def trace_part(e):
    s = str(e)
    i = s.find('Traceback')
    return s.split('\n  File ')[0] if '\n  File ' in s else s


def fill_hole(ir, fn, r):
    orig = pyval.fn_of

    def fn_of(desc):
        if desc[0] == 'hole':
            return fn
        return orig(desc)
    pyval.fn_of = fn_of
    pyspec.fn_of = fn_of
    try:
        return pyspec.build(ir, r)
    finally:
        pyval.fn_of = orig
        pyspec.fn_of = orig


# ---------- (d) free-running stress ----------
def run_stress(case):
    import glom
    gates = Gates()
    calls = build_calls(case, gates)

    def thunk(i):
        r, target, spec = calls[i]
        return lambda: r.encode(glom.glom(target, spec))
    alone = [outcome(thunk(i)) for i in range(len(calls))]
    problems = []
    old = sys.getswitchinterval()
    sys.setswitchinterval(1e-6)
    try:
        def hammer(k):
            for n in range(case['rounds']):
                i = (k + n) % len(calls)
                o = outcome(thunk(i))
                if o != alone[i]:
                    problems.append('thread %d round %d call %d: %r vs alone %r' % (k, n, i, _short(o), _short(alone[i])))
                    return
        ts = [threading.Thread(target=hammer, args=(k,)) for k in range(case['nthreads'])]
        for t in ts:
            t.start()
        for t in ts:
            t.join(timeout=60)
    finally:
        sys.setswitchinterval(old)
    return {'problems': problems[:3], 'n': len(calls)}


def run_impl(case):
    k = case['kind']
    if k == 'dictops':
        return run_dictops(case)
    if k == 'regops':
        return run_regops(case)
    if k == 'calls':
        return run_calls(case)
    if k == 'reentrant':
        return run_reentrant(case)
    if k == 'recursive':
        return run_recursive(case)
    return run_stress(case)


# ---------- generation ----------
def plant_gates(rng, spec, n0):
    n = rng.randint(1, 4)
    for j in range(n):
        pos = positions(spec, [], [([], 0)], 0)
        path, _ = rng.choice(pos)
        orig = get_at(spec, path)
        if orig[0] in ('Bind', 'Let', 'AssignScope'):
            continue
        gate = ['Fn', ['gate', n0 + j]]
        spec = set_at(spec, path, ['Tuple', [gate, orig]] if rng.random() < 0.5 else ['Tuple', [orig, gate]])
    return spec


def gen_calls(rng, k):
    calls = []
    for i in range(k):
        g = SpecGen(rng)
        t = g.target(rng.choice([2, 3]))
        spec = g.spec(t, rng.choice([1, 2, 3]))
        if rng.random() < 0.35:
            # a failure after some yield points: the error trace of this call is built while the others run
            pos = positions(spec, [], [([], 0)], 0)
            path, _ = rng.choice(pos)
            orig = get_at(spec, path)
            if orig[0] not in ('Bind', 'Let', 'AssignScope'):
                spec = set_at(spec, path, ['Tuple', [orig, ['Fn', ['raise', rng.choice(['ValueError', 'KeyError', 'GPlain', 'UAttr', 'UTwinA', 'UTwinB', 'UTwinK', 'UTwinA', 'UTwinB'])]]]])
        spec = plant_gates(rng, spec, 10 * i)
        calls.append({'target': t, 'spec': spec})
    return calls


def gen_shared(rng, k):
    """k calls on different targets through the SAME spec object, whose scope binding evaluates a dict / list literal in
    argument position with a yield point inside it"""
    g = SpecGen(rng)
    t = g.target(rng.choice([2, 3]))
    inner = g.spec(t, rng.choice([1, 2]))
    gate = ['Fn', ['gate', 1]]
    first = ['Spec', ['Tuple', [gate, ['Str', 'who']]], []]
    second = ['Spec', ['Tuple', [['Str', 't'], inner, ['Fn', ['gate', 2]]]], []]
    lit = rng.choice([['Dict', False, [[['Str', 'a'], first], [['Str', 'b'], second]]],
                      ['List', [first, second]],
                      ['Dict', False, [[['Str', 'a'], ['List', [first]]], [['Str', 'b'], ['T', 'T', [['[', ['Str', 'who']]]]]]]])
    spec = ['Tuple', [['Bind', [['info', lit]]], ['T', 'S', [['.', ['Str', 'info']]]]]]
    if rng.random() < 0.4:
        # every call fails, and the spec it fails in shows an object whose repr() is a yield point: the error traces are
        # rendered while the other calls render theirs (of the same spec object)
        spec = ['Tuple', [['Fn', ['reprgate', 1]], ['Fn', ['gate', 1]], ['Str', 'zz__missing'], ['Fn', ['reprgate', 2]]]]
    calls = [{'target': {'k': 'dict', 'od': False, 'id': 900, 'items': [['who', 'caller-%d' % i], ['t', t]]}, 'spec': spec} for i in range(k)]
    if rng.random() < 0.3:
        # the shared spec binds an EMPTY list / dict / set literal in its scope and a callable fills it in, with a yield point between
        # two visits: every call starts from its own empty container
        acc = rng.choice([['List', []], ['Dict', False, []], ['Set', False, []]])
        visit = ['Call', ['Fn', ['visit']], [['T', 'T', []], ['T', 'S', [['.', ['Str', 'seen']]]]]]
        spec = ['Tuple', [['Bind', [['seen', acc]]], ['List', [['Tuple', [['Fn', ['gate', 1]], visit]]]]]]
        calls = [{'target': {'k': 'list', 'id': 900, 'items': ['c%d-a' % i, 'c%d-b' % i]}, 'spec': spec} for i in range(k)]
    return {'kind': 'calls', 'shared_spec': True, 'calls': calls,
            'schedule': [rng.randint(0, k - 1) for _ in range(rng.randint(0, 3 * k + 2))]}


def run_recursive(case):
    """a callable that re-enters glom with the very spec it belongs to, for every child of a tree"""
    import glom
    from glom import S, T, Spec
    box = {}

    def kids(t):
        return [glom.glom(k, box['spec']) for k in t.get('kids', ())]
    shape = case['shape']
    if shape == 'dict':
        box['spec'] = (S(info={'kids': Spec(kids), 'name': T['name']}), S.info)
        ref = lambda t: {'kids': [ref(k) for k in t.get('kids', ())], 'name': t['name']}  # noqa: E731
    elif shape == 'list':
        box['spec'] = (S(info=[T['name'], Spec(kids)]), S.info)
        ref = lambda t: [t['name'], [ref(k) for k in t.get('kids', ())]]  # noqa: E731
    else:
        box['spec'] = glom.Call(lambda a, b: [a, b], args=(T['name'], [Spec(kids)]))
        ref = lambda t: [t['name'], [[ref(k) for k in t.get('kids', ())]]]  # noqa: E731
    got = outcome(lambda: glom.glom(case['tree'], box['spec']))
    want = ['ok', ref(case['tree'])]
    problems = [] if got == want else ['re-entering glom with the same spec object: got %r, the plain recursion gives %r' % (_short(got), _short(want))]
    return {'problems': problems}


def gen_tree(rng, depth):
    t = {'name': 'n%d' % rng.randint(0, 99)}
    if depth > 0 and rng.random() < 0.8:
        t['kids'] = [gen_tree(rng, depth - 1) for _ in range(rng.randint(1, 3))]
    return t


HOLE = ['Fn', ['hole']]


def gen_reentrant(rng):
    g = SpecGen(rng)
    t = g.target(3)
    levels = [g.spec(t, rng.choice([1, 2, 3]))]
    if rng.random() < 0.35:
        levels[0] = ['Tuple', [levels[0], ['Fn', ['raise', rng.choice(['ValueError', 'KeyError', 'UPlain', 'GPlain'])]]]]
    for _ in range(rng.randint(1, 2)):
        shape = rng.random()
        if shape < 0.3:
            levels.append(HOLE)
        elif shape < 0.55:
            levels.append(['Coalesce', [HOLE, ['Fn', ['const', 7]]], None, None, None, None])
        elif shape < 0.7:
            levels.append(['Coalesce', [HOLE, ['Str', 'zz']], ['Lit', 'dflt'], None, None, None])
        elif shape < 0.85:
            levels.append(['Dict', False, [[['Str', 'x'], HOLE], [['Str', 'y'], g.spec(t, 1)]]])
        else:
            levels.append(['Tuple', [['T', 'T', []], HOLE, ['Fn', ['id']]]])
    return {'kind': 'reentrant', 'target': t, 'levels': levels}


def gen_regops(rng):
    nt = rng.choice([2, 2, 3])
    names = list(REG_OBJS)
    threads = [['%s|%s' % (rng.choice(names), rng.choice(['get', 'iterate', 'keys'])) for _ in range(rng.randint(1, 3))] for _ in range(nt)]
    if rng.random() < 0.5:
        threads[1][0] = threads[0][0]                      # a race for the same key
    steps = sum(3 * len(t) for t in threads)
    return {'kind': 'regops', 'threads': threads, 'schedule': [rng.randint(0, nt - 1) for _ in range(rng.randint(0, steps))]}


def gen_dictops(rng):
    nt = rng.choice([2, 2, 3])
    threads = [[rng.choice(TEXTS) for _ in range(rng.randint(1, 3))] for _ in range(nt)]
    steps = sum(4 * len(t) for t in threads)
    return {'kind': 'dictops', 'max': rng.choice([0, 1, 2, 3]), 'star': rng.random() < 0.8, 'threads': threads,
            'schedule': [rng.randint(0, nt - 1) for _ in range(rng.randint(0, steps))]}


def corpus():
    out = [{'kind': 'dictops', 'max': 5, 'star': True, 'threads': [['a'], ['a']], 'schedule': [0, 1, 1, 1, 0, 0, 0, 0, 1]},
           {'kind': 'dictops', 'max': 0, 'star': True, 'threads': [['a', 'b'], ['b', 'a']], 'schedule': [0, 1, 0, 1, 0, 1, 0, 1, 0, 1]}]
    # one spec object shared by the calls binds an EMPTY list / dict / set literal that a callable fills in: each call has its own
    visit = ['Call', ['Fn', ['visit']], [['T', 'T', []], ['T', 'S', [['.', ['Str', 'seen']]]]]]
    for acc in (['List', []], ['Dict', False, []], ['Set', False, []]):
        spec = ['Tuple', [['Bind', [['seen', acc]]], ['List', [['Tuple', [['Fn', ['gate', 1]], visit]]]]]]
        calls = [{'target': {'k': 'list', 'id': 900, 'items': ['c%d-a' % i, 'c%d-b' % i]}, 'spec': spec} for i in range(2)]
        for schedule in ([0, 1, 0, 1, 0, 1], [0, 0, 0, 0, 1, 1, 1, 1], []):
            out.append({'kind': 'calls', 'shared_spec': True, 'calls': calls, 'schedule': schedule})
    return out


def generate(rng, tier):
    n_dict, n_calls, n_re = (700, 160, 260) if tier == 'quick' else (5000, 1500, 2500)
    out = [gen_dictops(rng) for _ in range(n_dict)] + [gen_regops(rng) for _ in range(n_dict // 3)]
    if tier != 'quick':
        # all interleavings of two single-call threads (at most 4 steps each), for every pair of texts and small limits
        for a, b in [('a', 'a'), ('a', 'b'), ('a.*', 'a.*')]:
            for mx in (0, 1):
                for combo in itertools.combinations(range(8), 4):
                    sch = [0 if i in combo else 1 for i in range(8)]
                    out.append({'kind': 'dictops', 'max': mx, 'star': True, 'threads': [[a], [b]], 'schedule': sch})
    for _ in range(n_calls):
        k = rng.choice([2, 2, 3])
        out.append({'kind': 'calls', 'calls': gen_calls(rng, k), 'schedule': [rng.randint(0, k - 1) for _ in range(rng.randint(0, 4 * k + 2))]})
    out += [gen_reentrant(rng) for _ in range(n_re)]
    for _ in range(n_calls // 2):
        out.append(gen_shared(rng, rng.choice([2, 2, 3])))
    for _ in range(n_calls // 4):
        out.append({'kind': 'recursive', 'shape': rng.choice(['dict', 'list', 'call']), 'tree': gen_tree(rng, rng.choice([1, 2, 3]))})
    if tier != 'quick':
        for _ in range(40):
            out.append({'kind': 'stress', 'calls': gen_calls(rng, 3), 'nthreads': 4, 'rounds': 150})
    return out


# ---------- Coq side ----------
TRIVIAL = '(APath (mkSC 0 true [] [] [] []))'


def _rv(v):
    return 'None' if v is None else '(Some %s)' % cstr(v)


def coq_case(case, out):
    if case['kind'] == 'regops' and not ('harness_error' in out or 'harness_timeout' in out or out.get('errors')):
        return '(AReg (mkRC %s %s %s %s %s))' % (
            clist('(%s, %s)' % (cstr(k), _rv(v)) for k, v in out['answers']),
            clist(clist(cstr(k) for k in th) for th in case['threads']), clist(cnat(i) for i in case['schedule']),
            clist(clist(_rv(v) for v in th) for th in out['seen']), clist(cstr(k) for k in out['keys']))
    if case['kind'] != 'dictops' or 'harness_error' in out or 'harness_timeout' in out or out.get('errors'):
        return TRIVIAL
    seen = clist(clist('(%s, %s)' % (cstr(c), clist(cstr(x) for x in s)) for c, s in th) for th in out['seen'])
    return '(APath (mkSC %s %s %s %s %s %s))' % (cz(case['max']), cbool(case['star']), clist(clist(cstr(t) for t in th) for th in case['threads']),
                                                clist(cnat(i) for i in case['schedule']), seen, clist(cstr(k) for k in out['keys']))


def model_dump_term(case):
    if case['kind'] == 'regops':
        return 'any_model %s' % coq_case(case, {'answers': [], 'seen': [[] for _ in case['threads']], 'keys': []})
    if case['kind'] != 'dictops':
        return '0'
    return 'any_model %s' % coq_case(case, {'seen': [[] for _ in case['threads']], 'keys': []})


def direct_oracle(case, out):
    if 'harness_error' in out or 'harness_timeout' in out:
        return 'the schedule could not be driven: %s' % (out.get('harness_error') or 'timeout')
    if case['kind'] in ('dictops', 'regops'):
        if out.get('errors'):
            return 'a thread failed inside the shared memo: %r' % out['errors']
        return None
    if out.get('problems'):
        return '; '.join(out['problems'][:2])
    return None


def nontrivial(case, out):
    return True


def classify(case, out):
    k = case['kind']
    if k == 'dictops':
        return 'dictops:%d-threads:max%d' % (len(case['threads']), case['max'])
    if k == 'regops':
        return 'regops:%d-threads' % len(case['threads'])
    if k == 'calls' and case.get('shared_spec'):
        return 'shared-spec:%d:%s' % (len(case['calls']), '/'.join(out.get('kinds', [])))
    if k == 'calls':
        return 'calls:%d:%s' % (len(case['calls']), '/'.join(out.get('kinds', [])))
    if k == 'reentrant':
        return 'reentrant:depth%d:%s' % (len(case['levels']), out.get('final'))
    if k == 'recursive':
        return 'recursive:%s' % case['shape']
    return 'stress'


def python_snippet(case):
    return ('import sys; sys.path.insert(0, "/verif/harness"); sys.path.insert(0, "/repo")\n'
            'import props.c20 as p; print(p.run_impl(%r))' % (case,))
