"""Graph IR shared by the Python realiser and the Coq printer (Base/Heap.v).

heap: list of cells; cell n = {"k": "dict", "od": bool, "items": [[atom, gval], ...]}
                            | {"k": "list"|"tuple", "items": [gval, ...]}
                            | {"k": "obj", "cls": c, "attrs": [[name, gval], ...]}
gval: atom (None/bool/int/str) | {"ref": n}.  Tuples may only refer to tuples with a smaller index
(everything else may be cyclic)."""
import collections

from lib import cstr, cz, cnat, cbool, clist
from pyval import cls_of, _Obj


def atom_coq(a):
    if a is None:
        return 'ANone'
    if isinstance(a, bool):
        return '(ABool %s)' % cbool(a)
    if isinstance(a, int):
        return '(AInt %s)' % cz(a)
    return '(AStr %s)' % cstr(a)


def gval_coq(v):
    if isinstance(v, dict):
        return '(GR %s)' % cnat(v['ref'])
    return '(GA %s)' % atom_coq(v)


def cell_coq(c):
    k = c['k']
    if k == 'dict':
        return '(NDict %s %s)' % (cbool(c['od']), clist('(%s, %s)' % (atom_coq(a), gval_coq(v)) for a, v in c['items']))
    if k == 'list':
        return '(NList %s)' % clist(gval_coq(v) for v in c['items'])
    if k == 'tuple':
        return '(NTuple %s)' % clist(gval_coq(v) for v in c['items'])
    return '(NObj %s %s)' % (cnat(c['cls']), clist('(%s, %s)' % (cstr(a), gval_coq(v)) for a, v in c['attrs']))


def heap_coq(cells):
    return clist(cell_coq(c) for c in cells)


class HeapRealiser:
    def __init__(self, cells, class_factory=cls_of):
        self.cells = cells
        self.objs = [None] * len(cells)
        self.cf = class_factory
        # phase 1: empty mutable containers
        for i, c in enumerate(cells):
            if c['k'] == 'dict':
                self.objs[i] = collections.OrderedDict() if c['od'] else {}
            elif c['k'] == 'list':
                self.objs[i] = []
            elif c['k'] == 'obj':
                self.objs[i] = self.cf(c['cls'])()
        # phase 2: tuples, in index order (may refer to earlier tuples and to any mutable container)
        for i, c in enumerate(cells):
            if c['k'] == 'tuple':
                self.objs[i] = tuple(self.val(v) for v in c['items'])
        # phase 3: fill
        for i, c in enumerate(cells):
            o = self.objs[i]
            if c['k'] == 'dict':
                for a, v in c['items']:
                    o[a] = self.val(v)
            elif c['k'] == 'list':
                o.extend(self.val(v) for v in c['items'])
            elif c['k'] == 'obj':
                for a, v in c['attrs']:
                    object.__setattr__(o, a, self.val(v)) if False else o.__dict__.__setitem__(a, self.val(v))
        self.ids = {id(o): i for i, o in enumerate(self.objs)}

    def val(self, v):
        if isinstance(v, dict):
            return self.objs[v['ref']]
        return v

    def enc(self, o):
        """python value -> gval IR (containers must be cells of the heap)"""
        if o is None or isinstance(o, bool) or type(o) in (int, str):
            return o
        if id(o) in self.ids and self.objs[self.ids[id(o)]] is o:
            return {'ref': self.ids[id(o)]}
        if type(o) is tuple and not o:
            for i, c in enumerate(self.cells):
                if c['k'] == 'tuple' and not c['items']:
                    return {'ref': i}
        return {'foreign': type(o).__name__}

    def snapshot(self):
        """current state of all cells as IR (for mutation properties)"""
        out = []
        for i, c in enumerate(self.cells):
            o = self.objs[i]
            if c['k'] == 'dict':
                out.append({'k': 'dict', 'od': c['od'], 'items': [[k, self.enc(v)] for k, v in o.items()]})
            elif c['k'] in ('list', 'tuple'):
                out.append({'k': c['k'], 'items': [self.enc(v) for v in o]})
            else:
                out.append({'k': 'obj', 'cls': c['cls'], 'attrs': [[k, self.enc(v)] for k, v in o.__dict__.items()]})
        return out


KEYS = ['a', 'b', 'c', 'k0', 'k1', '0', '1']
ATTRS = ['a', 'b', 'c', 'k0']


class HeapGen:
    def __init__(self, rng, cyclic=0.3, kinds=('dict', 'dict', 'odict', 'list', 'list', 'tuple', 'obj')):
        self.r = rng
        self.cyclic = cyclic
        self.kinds = kinds

    def atom(self):
        return self.r.choice([None, True, 0, 1, 2, 7, -1, 'a', 'b', 'x', '', 'hello'])

    def heap(self, n):
        r = self.r
        kinds = [r.choice(self.kinds) for _ in range(n)]
        cells = []
        for i, k in enumerate(kinds):
            m = r.choice([0, 1, 2, 2, 3])

            def ref():
                # children usually point forward (tree/DAG), sometimes anywhere (cycles)
                if r.random() < 0.45 or n == 1:
                    return self.atom()
                if r.random() < self.cyclic:
                    j = r.randrange(n)
                else:
                    j = r.randrange(i + 1, n) if i + 1 < n else None
                    if j is None:
                        return self.atom()
                if k == 'tuple' and kinds[j] == 'tuple' and j >= i:
                    return self.atom()
                return {'ref': j}
            if k in ('dict', 'odict'):
                keys = r.sample(KEYS, m)
                if r.random() < 0.15 and keys:
                    keys[0] = r.choice([0, 1, 2, None])
                cells.append({'k': 'dict', 'od': k == 'odict', 'items': [[kk, ref()] for kk in keys]})
            elif k in ('list', 'tuple'):
                items = [ref() for _ in range(m)]
                if k == 'tuple' and not items:
                    items = [self.atom()]       # CPython has one shared empty tuple: it cannot be a cell of its own
                cells.append({'k': k, 'items': items})
            else:
                cells.append({'k': 'obj', 'cls': r.choice([0, 1]), 'attrs': [[a, ref()] for a in r.sample(ATTRS, m)]})
        # tuples referencing tuples: only earlier ones (realiser builds tuples in index order)
        for i, c in enumerate(cells):
            if c['k'] == 'tuple':
                c['items'] = [v if not (isinstance(v, dict) and cells[v['ref']]['k'] == 'tuple' and v['ref'] >= i) else 0
                              for v in c['items']]
        return cells
