"""Spec IR for the interpreter model (Model/Interp.v): Python realiser and Coq printer.

IR (lists, first element = constructor):
 ["Str", s] ["T", root, [[code, argspec]...]] ["Bind", [[k, spec]]] ["AssignScope", globals?, name]
 ["Dict", od, [[kspec, vspec]]] ["List", [specs]] ["Tuple", [specs]] ["Set", fz, [specs]]
 ["Fn", fndesc] ["Lit", V] ["Type", tyname] ["Val", V] ["Spec", spec, [[k, V]]] ["Pipe", [specs]]
 ["Coalesce", [specs], default|None, factory|None, skip|None, skip_exc|None] ["Call", fspec, [args]]
 ["Invoke", fspec, [[is_spec, [specs]]]] ["Ref", name, sub|None] ["Fill", s] ["Auto", s] ["Match", s, default|None]
 ["Let", [[k, s]]] ["Vars", [[k, V]]] ["And", [specs], default] ["Or", [specs], default] ["Not", s] ["M"] ["MSub", s]
 ["MExpr", lhs, op, rhs] ["Switch", [[k, v]], default] ["Check", sub, types, vals, validators, inst_of, default]
 ["Optional", V, default] ["Required", s] ["Regex", id]
"""
import operator
import re

import pyval
from lib import cstr, cz, cnat, cbool, clist, copt
from pyval import val_coq, fn_coq, fn_of, TYPES, TY_COQ, cls_of

REGEXES = {0: 'a+', 1: '(?P<n>[0-9]+)', 2: '.*', 3: 'a+', 4: 'a+'}
REGEX_FUNCS = {3: 'match', 4: 'search'}     # the other two matching functions: a prefix, anywhere
M_OPS = {'=': operator.eq, '!': operator.ne, '<': operator.lt, '>': operator.gt, 'l': operator.le, 'g': operator.ge}


def ty_of(name):
    return TYPES[name] if name in TYPES else cls_of(int(name[1:]))


SPEC_CONTAINERS = []     # every list / dict / set object built for a container node of the spec IR since the last reset


def build(ir, r, ctor=True):
    """IR -> real glom spec objects; r is a pyval.Realiser for embedded values"""
    out = _build(ir, r, ctor)
    if ir[0] in ('List', 'Dict', 'Set') and type(out) in (list, dict, set):
        SPEC_CONTAINERS.append(out)
    return out


def spec_leaks(res):
    """how many containers reachable from a result ARE (by identity) containers of the spec: evaluation builds new ones"""
    seen, stack, n = set(), [res], 0
    ids = {id(c) for c in SPEC_CONTAINERS}
    while stack:
        x = stack.pop()
        if id(x) in seen or not isinstance(x, (list, dict, set, tuple)):
            continue
        seen.add(id(x))
        if id(x) in ids:
            n += 1
        stack.extend(x.values() if isinstance(x, dict) else x)
        if isinstance(x, dict):
            stack.extend(x.keys())
    return n


def _build(ir, r, ctor=True):
    import glom
    from glom import matching
    k = ir[0]
    B = lambda x: build(x, r, ctor)  # noqa: E731
    if k == 'Str':
        return ir[1]
    if k == 'T':
        t = {'T': glom.T, 'S': glom.S, 'A': glom.A}[ir[1]]
        for code, a in ir[2]:
            if code == '.':
                t = getattr(t, a[1])
            elif code == '[':
                t = t[B(a)]
            elif code == '(':
                t = t(*[B(x) for x in a[1]])
            elif code == 'P':
                t = glom.core._t_child(t, 'P', B(a))
            else:
                raise ValueError(code)
        return t
    if k == 'Bind':
        return glom.S(**{kk: B(v) for kk, v in ir[1]})
    if k == 'AssignScope':
        return getattr(glom.A.globals, ir[2]) if ir[1] else getattr(glom.A, ir[2])
    if k == 'Dict':
        import collections
        d = collections.OrderedDict() if ir[1] else {}
        for ks, vs in ir[2]:
            d[B(ks)] = B(vs)
        return d
    if k == 'List':
        return [B(x) for x in ir[1]]
    if k == 'Tuple':
        return tuple(B(x) for x in ir[1])
    if k == 'Set':
        return (frozenset if ir[1] else set)(B(x) for x in ir[2])
    if k == 'Fn':
        return fn_of(ir[1])
    if k == 'Lit':
        return r.build(ir[1])
    if k == 'Type':
        return ty_of(ir[1])
    if k == 'Val':
        return glom.Val(r.build(ir[1]))
    if k == 'Spec':
        return glom.Spec(B(ir[1]), scope={kk: r.build(v) for kk, v in ir[2]})
    if k == 'Pipe':
        return glom.Pipe(*[B(x) for x in ir[1]])
    if k == 'Coalesce':
        kw = {}
        if ir[2] is not None:
            kw['default'] = B(ir[2])
        if ir[3] is not None:
            kw['default_factory'] = fn_of(ir[3])
        if isinstance(ir[4], dict) and 'skipnone' in ir[4]:
            kw['skip'] = None                     # skip=None given explicitly: None results are skipped
        elif ir[4] is not None:
            kw['skip'] = r.build(ir[4]) if not (isinstance(ir[4], dict) and 'fn' in ir[4]) else fn_of(ir[4]['fn'])
        if ir[5] is not None:
            kw['skip_exc'] = tuple(_exc_cls(n) for n in ir[5])
        return glom.Coalesce(*[B(x) for x in ir[1]], **kw)
    if k == 'Call':
        if len(ir) > 3 and ir[3]:
            return glom.Call(B(ir[1]), args=tuple(B(x) for x in ir[2]), kwargs={name: B(x) for name, x in ir[3]})
        return glom.Call(B(ir[1]), args=tuple(B(x) for x in ir[2]))
    if k == 'Invoke':
        f = ir[1]
        if f[0] not in ('Fn', 'Spec') and len(repr(f)) % 2:
            inv = glom.Invoke.specfunc(B(f))          # the documented spelling of Invoke(Spec(f))
        else:
            inv = glom.Invoke(B(f)) if f[0] in ('Fn',) else glom.Invoke(glom.Spec(B(f)) if f[0] != 'Spec' else B(f))
        for tag, ss, kw in invoke_parts(ir[2]):
            parent = inv
            if tag == 1:
                inv = inv.specs(*[B(x) for x in ss], **{name: B(x) for name, x in kw})
            elif tag == 0:
                inv = inv.constants(*[B(x) for x in ss], **{name: B(x) for name, x in kw})
            else:
                inv = inv.star(args=B(ss[0]) if ss else None, kwargs=B(kw[0][1]) if kw else None)
            if kw and tag != 2:
                # "every call returns a new spec": siblings derived from the same ancestors afterwards, giving the same keyword
                # names other values, must not change this one
                parent.constants(**{name: 'sibling' for name, _ in kw})
                parent.specs(**{name: glom.Val('sibling') for name, _ in kw})
                inv.constants(**{name: 'child' for name, _ in kw})
        return inv
    if k == 'Ref':
        if ir[2] is None:
            # one bare Ref object per name and spec: a reference may be shared between positions (under different definitions of the
            # name, in sibling branches, across calls) — what it resolves to is decided by where it is evaluated, every time
            memo = r.__dict__.setdefault('_bare_refs', {})
            if ir[1] not in memo:
                memo[ir[1]] = glom.Ref(ir[1])
            return memo[ir[1]]
        return glom.Ref(ir[1], B(ir[2]))
    if k == 'Fill':
        return glom.Fill(B(ir[1]))
    if k == 'Auto':
        return glom.Auto(B(ir[1]))
    if k == 'Match':
        return glom.Match(B(ir[1])) if ir[2] is None else glom.Match(B(ir[1]), default=B(ir[2]))
    if k == 'Let':
        return glom.Let(**{kk: B(v) for kk, v in ir[1]})
    if k == 'Vars':
        return glom.Vars(**{kk: r.build(v) for kk, v in ir[1]})
    if k in ('And', 'Or'):
        cls = glom.And if k == 'And' else glom.Or
        kids = [B(x) for x in ir[1]]
        style = ir[3] if len(ir) > 3 else 'ctor'
        if style == 'op' and ir[2] is None and len(kids) >= 2 and _is_mish(kids[0]):
            acc = kids[0]
            for x in kids[1:]:
                acc = (acc & x) if k == 'And' else (acc | x)
            return acc
        if style == 'op' and ir[2] is None and k == 'And' and len(kids) == 2 and not _is_mish(kids[0]) \
                and isinstance(kids[1], (matching._MType, matching._MExpr)) and not hasattr(type(kids[0]), '__and__'):
            # a left operand without an & of its own (a Val, a tuple, a callable ...): Python asks the M expression on the right
            return kids[0] & kids[1]
        return cls(*kids) if ir[2] is None else cls(*kids, default=B(ir[2]))
    if k == 'Not':
        inner = B(ir[1])
        style = ir[2] if len(ir) > 2 else 'ctor'
        if style == 'op' and _is_mish(inner) and hasattr(type(inner), '__invert__'):
            return ~inner            # a bare M(T-expr) has no ~ of its own: it is negated through the constructor
        return glom.Not(inner)
    if k == 'M':
        return glom.M
    if k == 'MSub':
        return glom.M(B(ir[1]))
    if k == 'MExpr':
        def side(x):
            if x[0] == 'M':
                return glom.M
            if x[0] == 'MSub':
                return glom.M(B(x[1]))
            return B(x)
        lhs, rhs = side(ir[1]), side(ir[3])
        if ir[1][0] in ('M', 'MSub'):
            return M_OPS[ir[2]](lhs, rhs)
        return matching._MExpr(lhs, ir[2], rhs)
    if k == 'Switch':
        cases = [(B(a), B(b)) for a, b in ir[1]]
        return glom.Switch(cases) if ir[2] is None else glom.Switch(cases, default=B(ir[2]))
    if k == 'Check':
        _, sub, types, vals, validators, inst_of, default = ir
        kw = {}
        # a single condition is spelled as the bare value (type=int, equal_to=7, validate=f, instance_of=int) for half of the
        # cases and as a one-element collection for the other half (decided by the case itself, so a replay is stable)
        bare = len(repr(ir)) % 2 == 0
        if types:
            kw['type'] = ty_of(types[0]) if bare and len(types) == 1 else tuple(ty_of(t) for t in types)
        if vals:
            if bare and len(vals) == 1:
                kw['equal_to'] = r.build(vals[0])
            else:
                kw['one_of'] = tuple(r.build(v) for v in vals)
        if validators:
            kw['validate'] = fn_of(validators[0]) if bare and len(validators) == 1 else [fn_of(f) for f in validators]
        if inst_of:
            kw['instance_of'] = ty_of(inst_of[0]) if bare and len(inst_of) == 1 else tuple(ty_of(t) for t in inst_of)
        if default is not None:
            kw['default'] = B(default)
        return glom.Check(B(sub), **kw) if sub is not None else glom.Check(**kw)
    if k == 'Optional':
        return glom.Optional(r.build(ir[1])) if ir[2] is None else glom.Optional(r.build(ir[1]), default=B(ir[2]))
    if k == 'Required':
        return glom.Required(B(ir[1]))
    if k == 'Regex':
        import re
        return glom.Regex(REGEXES[ir[1]], func=getattr(re, REGEX_FUNCS[ir[1]])) if ir[1] in REGEX_FUNCS else glom.Regex(REGEXES[ir[1]])
    raise ValueError(ir)


def _is_mish(x):
    from glom import matching
    return isinstance(x, (matching._MType, matching._MExpr, matching._Bool, matching._MSubspec))


def _exc_cls(name):
    import builtins
    import glom
    return getattr(glom, name, None) or getattr(builtins, name)


def invoke_parts(parts):
    """[True|False, specs] (positional only) or ['S'|'C'|'*', specs, [[name, spec]...]] -> (tag 1|0|2, specs, keywords)"""
    out = []
    for p in parts:
        if p[0] is True or p[0] is False:
            out.append((1 if p[0] else 0, p[1], []))
        else:
            out.append(({'C': 0, 'S': 1, '*': 2}[p[0]], p[1], p[2]))
    return out


def olist(xs, f):
    return clist(f(x) for x in xs)


def spec_coq(ir):
    k = ir[0]
    C = spec_coq
    opt = lambda x: 'None' if x is None else '(Some %s)' % C(x)  # noqa: E731
    if k == 'Str':
        return '(SStr %s)' % cstr(ir[1])
    if k == 'T':
        ops = []
        for code, a in ir[2]:
            if code == '.':
                ops.append('(%s, SStr %s)' % (cstr(code), cstr(a[1])))
            elif code == '(':
                ops.append('(%s, STuple %s)' % (cstr(code), olist(a[1], C)))
            else:
                ops.append('(%s, %s)' % (cstr(code), C(a)))
        return '(ST %s %s)' % ({'T': 'RT', 'S': 'RS', 'A': 'RA'}[ir[1]], clist(ops))
    if k == 'Bind':
        return '(SBind %s)' % clist('(%s, %s)' % (cstr(a), C(b)) for a, b in ir[1])
    if k == 'AssignScope':
        return '(SAssignScope %s %s)' % (cbool(ir[1]), cstr(ir[2]))
    if k == 'Dict':
        return '(SDict %s %s)' % (cbool(ir[1]), clist('(%s, %s)' % (C(a), C(b)) for a, b in ir[2]))
    if k == 'List':
        return '(SList %s)' % olist(ir[1], C)
    if k == 'Tuple':
        return '(STuple %s)' % olist(ir[1], C)
    if k == 'Set':
        return '(SSetLit %s %s)' % (cbool(ir[1]), olist(ir[2], C))
    if k == 'Fn':
        return '(SFn %s)' % fn_coq(ir[1])
    if k == 'Lit':
        return '(SLit %s)' % val_coq(ir[1])
    if k == 'Type':
        t = ir[1]
        return '(SType %s)' % (TY_COQ[t] if t in TY_COQ else '(TyCls %s)' % cnat(int(t[1:])))
    if k == 'Val':
        return '(SVal %s)' % val_coq(ir[1])
    if k == 'Spec':
        return '(SSpec %s %s)' % (C(ir[1]), clist('(%s, %s)' % (cstr(a), val_coq(b)) for a, b in ir[2]))
    if k == 'Pipe':
        return '(SPipe %s)' % olist(ir[1], C)
    if k == 'Coalesce':
        skip = 'None'
        if isinstance(ir[4], dict) and 'skipnone' in ir[4]:
            skip = '(Some VNone)'
        elif ir[4] is not None:
            skip = '(Some %s)' % val_coq(ir[4])
        return '(SCoalesce %s %s %s %s %s)' % (olist(ir[1], C), opt(ir[2]), copt(ir[3], fn_coq), skip,
                                               copt(ir[5], lambda l: clist(cstr(x) for x in l)))
    if k == 'Call':
        kw = ir[3] if len(ir) > 3 and ir[3] else []
        return '(SCall %s %s %s)' % (C(ir[1]), olist(ir[2], C), clist('(%s, %s)' % (cstr(n), C(x)) for n, x in kw))
    if k == 'Invoke':
        return '(SInvoke %s %s)' % (C(ir[1]), clist('(%s, %s, %s)' % (cnat(tag), olist(ss, C), clist('(%s, %s)' % (cstr(n), C(x)) for n, x in kw))
                                                     for tag, ss, kw in invoke_parts(ir[2])))
    if k == 'Ref':
        return '(SRef %s %s)' % (cstr(ir[1]), opt(ir[2]))
    if k == 'Fill':
        return '(SFill %s)' % C(ir[1])
    if k == 'Auto':
        return '(SAuto %s)' % C(ir[1])
    if k == 'Match':
        return '(SMatch %s %s)' % (C(ir[1]), opt(ir[2]))
    if k == 'Let':
        return '(SLet %s)' % clist('(%s, %s)' % (cstr(a), C(b)) for a, b in ir[1])
    if k == 'Vars':
        return '(SVars %s)' % clist('(%s, %s)' % (cstr(a), val_coq(b)) for a, b in ir[1])
    if k == 'And':
        return '(SAnd %s %s)' % (olist(ir[1], C), opt(ir[2]))
    if k == 'Or':
        return '(SOr %s %s)' % (olist(ir[1], C), opt(ir[2]))
    if k == 'Not':
        return '(SNot %s)' % C(ir[1])
    if k == 'M':
        return 'SM'
    if k == 'MSub':
        return '(SMSub %s)' % C(ir[1])
    if k == 'MExpr':
        return '(SMExpr %s %s %s)' % (C(ir[1]), cstr(ir[2]), C(ir[3]))
    if k == 'Switch':
        return '(SSwitch %s %s)' % (clist('(%s, %s)' % (C(a), C(b)) for a, b in ir[1]), opt(ir[2]))
    if k == 'Check':
        _, sub, types, vals, validators, inst_of, default = ir
        tyc = lambda t: TY_COQ[t] if t in TY_COQ else '(TyCls %s)' % cnat(int(t[1:]))  # noqa: E731
        return '(SCheck %s %s %s %s %s %s)' % (opt(sub), olist(types, tyc), olist(vals, val_coq), olist(validators, fn_coq),
                                                olist(inst_of, tyc), opt(default))
    if k == 'Optional':
        return '(SOptional %s %s)' % (val_coq(ir[1]), opt(ir[2]))
    if k == 'Required':
        return '(SRequired %s)' % C(ir[1])
    if k == 'Regex':
        return '(SRegex %s)' % cnat(ir[1])
    raise ValueError(ir)


def run_glom(case, entry='glom'):
    """case: {target: V, spec: IR, scope?: [[k, V]]}; returns outcome with value / exception and the probe log.
    entry: which public entry point evaluates it — glom.glom(t, spec, scope=) | 'spec': Spec(spec).glom(t, scope=) |
    'spec-split': Spec(spec, scope=<the scope>).glom(t, scope={}) | 'spec-own': Spec(spec, scope=<the scope>).glom(t) |
    'glommer': Glommer().glom(t, spec, scope=)"""
    import glom
    r = pyval.Realiser()
    target = r.build(case['target'])
    del SPEC_CONTAINERS[:]
    spec = build(case['spec'], r)
    kw = {}
    if case.get('scope'):
        kw['scope'] = {k: r.build(v) for k, v in case['scope']}
        before = dict(kw['scope'])
    del pyval.CALL_LOG[:]
    try:
        if entry == 'glom':
            res = glom.glom(target, spec, **kw)
        elif entry == 'spec':
            res = glom.Spec(spec).glom(target, **kw)
        elif entry == 'spec-split':
            res = glom.Spec(spec, scope=kw.get('scope', {})).glom(target, scope={})
        elif entry == 'spec-own':
            res = glom.Spec(spec, scope=kw.get('scope', {})).glom(target)
        elif entry == 'twice':
            # the SAME spec object evaluated a second time (on a fresh copy of the target): nothing of the first call is left in it
            try:
                glom.glom(r.build(case['target']), spec, **({'scope': {k: r.build(v) for k, v in case['scope']}} if case.get('scope') else {}))
            except Exception:
                pass
            del pyval.CALL_LOG[:]
            res = glom.glom(target, spec, **kw)
        elif entry == 'spec-reuse':
            sp = glom.Spec(spec)
            try:
                sp.glom(r.build(case['target']), **kw)
            except Exception:
                pass
            del pyval.CALL_LOG[:]
            res = sp.glom(target)
        else:
            res = glom.Glommer().glom(target, spec, **kw)
        out = {'ok': r.encode(res)}
        leaks = spec_leaks(res)
        if leaks:
            out['spec_leaks'] = leaks
    except Exception as e:
        out = pyval.exc_outcome(e)
    out['log'] = [[n, r.encode(x)] for n, x in pyval.CALL_LOG]
    if case.get('scope'):
        out['scope_untouched'] = (list(kw['scope'].keys()) == list(before.keys())
                                  and all(kw['scope'][k] is before[k] for k in before))
    return out


def log_coq(log):
    return clist('(%s, %s)' % (cnat(n), val_coq(v)) for n, v in log)
