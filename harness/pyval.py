"""Value IR shared by the Python realiser and the Coq printer (tree-shaped models, Base/PyVal.v).

IR:  None | bool | int | str
     {"k": "list"|"tuple", "id": n, "items": [...]}
     {"k": "dict", "od": bool, "id": n, "items": [[k, v], ...]}
     {"k": "set", "fz": bool, "id": n, "items": [...]}
     {"k": "obj", "id": n, "cls": c, "attrs": [[name, v], ...]}
     {"fn": [name, args...]} | {"ty": name} | {"sent": "SKIP"|"STOP"}
id > 0 labels an input object (the same id twice = the same object), id 0 = allocated during the run.
"""
import collections
import functools
import operator

from lib import cstr, cz, cnat, cbool, clist


class _Obj:
    pass


CLASSES = {}


def cls_of(c):
    if c not in CLASSES:
        CLASSES[c] = type('C%d' % c, (_Obj,), {})
    return CLASSES[c]


CALL_LOG = []


def _mk_probe(n):
    def probe(x):
        CALL_LOG.append((n, x))
        return x
    probe.__name__ = 'probe%d' % n
    return probe


_PROBES = {}
_FNS = {}


def _raise_cls(name):
    import exccat
    return exccat.raiser(name)


def fn_of(desc):
    import glom
    key = repr(desc)
    if key in _FNS:
        return _FNS[key]
    name = desc[0]
    if name == 'id':
        f = lambda x: x  # noqa: E731
    elif name == 'len':
        f = len
    elif name == 'inc':
        f = lambda x: x + 1  # noqa: E731
    elif name == 'dbl':
        f = lambda x: x * 2  # noqa: E731
    elif name == 'even':
        f = lambda x: x % 2 == 0  # noqa: E731
    elif name == 'const':
        z = desc[1]
        f = lambda x: z  # noqa: E731
    elif name == 'raise':
        f = _raise_cls(desc[1])
    elif name == 'skip_if_odd':
        f = lambda x: glom.SKIP if (type(x) is int and x % 2 == 1) else x  # noqa: E731
    elif name == 'stop_if_neg':
        f = lambda x: glom.STOP if (type(x) is int and x < 0) else x  # noqa: E731
    elif name == 'probe':
        f = _mk_probe(desc[1])
    elif name == 'is_none':
        f = lambda x: x is None  # noqa: E731
    elif name == 'addargs':
        f = lambda *a: sum(a)  # noqa: E731
    elif name == 'rec':
        f = lambda *a, **kw: (a, kw)  # noqa: E731     records how it was called
    elif name == 'list':
        f = list
    elif name == 'tuple':
        f = tuple
    elif name == 'int':
        f = int
    elif name == 'str':
        f = str
    elif name == 'gt':
        f = functools.partial(operator.lt, desc[1])
    elif name == 'sum':
        f = sum
    elif name == 'max':
        f = max
    else:
        raise ValueError(desc)
    _FNS[key] = f
    return f


FN_COQ = {'id': 'FId', 'len': 'FLen', 'inc': 'FInc', 'dbl': 'FDbl', 'even': 'FEven', 'skip_if_odd': 'FSkipIfOdd',
          'stop_if_neg': 'FStopIfNeg', 'is_none': 'FIsNone', 'addargs': 'FAddArgs', 'list': 'FList', 'tuple': 'FTuple',
          'int': 'FInt', 'str': 'FStr', 'sum': 'FSum', 'max': 'FMax', 'rec': 'FRec'}


def fn_coq(desc):
    n = desc[0]
    if n in FN_COQ:
        return FN_COQ[n]
    if n == 'const':
        return '(FConst %s)' % cz(desc[1])
    if n == 'raise':
        return '(FRaise %s)' % cstr(desc[1])
    if n == 'probe':
        return '(FProbe %s)' % cnat(desc[1])
    if n == 'gt':
        return '(FGt %s)' % cz(desc[1])
    raise ValueError(desc)


TYPES = {'NoneType': type(None), 'bool': bool, 'int': int, 'float': float, 'str': str, 'list': list, 'tuple': tuple,
         'dict': dict, 'OrderedDict': collections.OrderedDict, 'set': set, 'frozenset': frozenset, 'object': object}
TY_COQ = {'NoneType': 'TyNone', 'bool': 'TyBool', 'int': 'TyInt', 'float': 'TyFloat', 'str': 'TyStr', 'list': 'TyList',
          'tuple': 'TyTuple', 'dict': 'TyDict', 'OrderedDict': 'TyODict', 'set': 'TySet', 'frozenset': 'TyFrozenset',
          'object': 'TyObject'}


class Realiser:
    """IR -> Python objects, remembering which object carries which label"""

    def __init__(self):
        self.by_id = {}      # label -> object
        self.label = {}      # id(object) -> (label, ir)
        self.keep = []

    def build(self, ir):
        import glom
        if ir is None or isinstance(ir, (bool, int, str)):
            return ir
        if 'fn' in ir:
            return fn_of(ir['fn'])
        if 'ty' in ir:
            t = ir['ty']
            return TYPES[t] if t in TYPES else cls_of(int(t[1:]))
        if 'sent' in ir:
            return glom.SKIP if ir['sent'] == 'SKIP' else glom.STOP
        i = ir['id']
        if ir['k'] == 'tuple' and not ir['items']:
            return ()
        if i and i in self.by_id:
            return self.by_id[i]
        k = ir['k']
        if k == 'list':
            o = [self.build(x) for x in ir['items']]
        elif k == 'tuple':
            o = tuple(self.build(x) for x in ir['items'])
        elif k == 'dict':
            o = collections.OrderedDict() if ir['od'] else {}
            for kk, vv in ir['items']:
                o[self.build(kk)] = self.build(vv)
        elif k == 'set':
            o = (frozenset if ir['fz'] else set)(self.build(x) for x in ir['items'])
        elif k == 'obj':
            o = cls_of(ir['cls'])()
            for n, v in ir['attrs']:
                setattr(o, n, self.build(v))
        else:
            raise ValueError(ir)
        if i:
            self.by_id[i] = o
            self.label[id(o)] = (i, ir)
        self.keep.append(o)
        return o

    def encode(self, o, depth=0):
        """Python result -> IR (input objects by their label, new objects with id 0)"""
        import glom
        if depth > 40:
            raise ValueError('too deep')
        if o is None or isinstance(o, bool) or type(o) is int or type(o) is str:
            return o
        if o is glom.SKIP:
            return {'sent': 'SKIP'}
        if o is glom.STOP:
            return {'sent': 'STOP'}
        if id(o) in self.label and self.by_id.get(self.label[id(o)][0]) is o:
            return self.label[id(o)][1]
        if type(o) is list:
            return {'k': 'list', 'id': 0, 'items': [self.encode(x, depth + 1) for x in o]}
        if type(o) is tuple:
            return {'k': 'tuple', 'id': 0, 'items': [self.encode(x, depth + 1) for x in o]}
        if type(o) is dict or type(o) is collections.OrderedDict:
            return {'k': 'dict', 'od': type(o) is not dict, 'id': 0,
                    'items': [[self.encode(k, depth + 1), self.encode(v, depth + 1)] for k, v in o.items()]}
        if type(o) in (set, frozenset):
            items = sorted((self.encode(x, depth + 1) for x in o), key=repr)
            return {'k': 'set', 'fz': type(o) is frozenset, 'id': 0, 'items': items}
        if isinstance(o, _Obj):
            return {'k': 'obj', 'id': 0, 'cls': int(type(o).__name__[1:]),
                    'attrs': [[n, self.encode(v, depth + 1)] for n, v in o.__dict__.items()]}
        if isinstance(o, type):
            for n, t in TYPES.items():
                if t is o:
                    return {'ty': n}
            if issubclass(o, _Obj):
                return {'ty': o.__name__}
        for key, f in _FNS.items():
            if f is o:
                return {'fn': eval(key)}
        if isinstance(o, float):
            return {'float': repr(o)}
        return {'opaque': type(o).__name__}


def val_coq(ir):
    if ir is None:
        return 'VNone'
    if isinstance(ir, bool):
        return '(VBool %s)' % cbool(ir)
    if isinstance(ir, int):
        return '(VInt %s)' % cz(ir)
    if isinstance(ir, str):
        return '(VStr %s)' % cstr(ir)
    if 'fn' in ir:
        return '(VFun %s)' % fn_coq(ir['fn'])
    if 'ty' in ir:
        t = ir['ty']
        return '(VType %s)' % (TY_COQ[t] if t in TY_COQ else '(TyCls %s)' % cnat(int(t[1:])))
    if 'sent' in ir:
        return 'VSkip' if ir['sent'] == 'SKIP' else 'VStop'
    if 'float' in ir or 'opaque' in ir:
        raise Unrepresentable(ir)
    k = ir['k']
    i = cnat(ir['id'])
    if k == 'list':
        return '(VList %s %s)' % (i, clist(val_coq(x) for x in ir['items']))
    if k == 'tuple':
        if not ir['items']:
            i = cnat(0)      # CPython has a single empty tuple: it has no identity of its own (a mutated case may still carry a label)
        return '(VTuple %s %s)' % (i, clist(val_coq(x) for x in ir['items']))
    if k == 'dict':
        return '(VDict %s %s %s)' % (i, cbool(ir['od']), clist('(%s, %s)' % (val_coq(a), val_coq(b)) for a, b in ir['items']))
    if k == 'set':
        return '(VSet %s %s %s)' % (i, cbool(ir['fz']), clist(val_coq(x) for x in ir['items']))
    if k == 'obj':
        return '(VObj %s %s %s)' % (i, cnat(ir['cls']), clist('(%s, %s)' % (cstr(a), val_coq(b)) for a, b in ir['attrs']))
    raise ValueError(ir)


class Unrepresentable(Exception):
    pass


BUILTIN_EXC = ['KeyError', 'IndexError', 'AttributeError', 'TypeError', 'ValueError', 'ZeroDivisionError',
               'LookupError', 'ArithmeticError', 'Exception', 'RuntimeError', 'StopIteration', 'OverflowError']


def exc_outcome(e):
    """observable part of an exception: class name, part_idx and inner class for PathAccessError,
    plus which of the catalogue classes it is an instance of"""
    import builtins
    import glom
    name = type(e).__name__
    m = None
    if name.startswith('GlomError.wrap('):
        name = name[len('GlomError.wrap('):-1]
        wrapped = True
    else:
        wrapped = False
    isa = [n for n in ['GlomError', 'PathAccessError', 'KeyError', 'IndexError', 'AttributeError', 'TypeError',
                       'ValueError', 'ZeroDivisionError', 'LookupError']
           if isinstance(e, getattr(glom, n, None) or getattr(builtins, n))]
    out = {'raise': name, 'wrapped': wrapped, 'isa': isa}
    if isinstance(e, glom.PathAccessError):
        out['part_idx'] = e.part_idx
        out['inner'] = type(e.exc).__name__
    return out


def res_coq(out):
    """outcome -> Gallina term of type res val"""
    if 'raise' in out:
        return '(Raise (mkExn %s %s %s ""))' % (cstr(out['raise']), cnat(out.get('part_idx', 0)), cstr(out.get('inner', '')))
    return '(Ok %s)' % val_coq(out['ok'])


# ----------------------------------------------------------------------------------------
# random targets
ATTR_NAMES = ['a', 'b', 'c', 'd', 'e', 'k0', 'k1']
KEYS = ['a', 'b', 'c', 'd', 'k0', 'k1', '0', '1', '-1', 'x.y']


class TargetGen:
    def __init__(self, rng):
        self.rng = rng
        self.next_id = 1
        self.shared = []

    def fresh(self):
        i = self.next_id
        self.next_id += 1
        return i

    def atom(self):
        r = self.rng
        return r.choice([None, True, False, 0, 1, -1, 2, 7, 10, 'a', 'b', '', 'x.y', 'hello', '1', '0'])

    def value(self, depth):
        r = self.rng
        if depth <= 0 or r.random() < 0.25:
            return self.atom()
        if self.shared and r.random() < 0.12:
            return r.choice(self.shared)
        kind = r.choice(['dict', 'dict', 'odict', 'list', 'list', 'tuple', 'obj'])
        n = r.choice([0, 1, 2, 2, 3, 3])
        if kind in ('dict', 'odict'):
            keys = r.sample(KEYS, min(n, len(KEYS)))
            if r.random() < 0.2:
                keys = [r.choice([0, 1, 2, True, None]) if r.random() < 0.5 else k for k in keys]
                seen, ks = set(), []
                for k in keys:
                    hk = (k == 1 and 1) or (k == 0 and k is not None and k != '' and 0) or k
                    tag = ('n', int(k)) if isinstance(k, (bool, int)) and k is not None else ('o', k)
                    if tag not in seen:
                        seen.add(tag)
                        ks.append(k)
                keys = ks
            v = {'k': 'dict', 'od': kind == 'odict', 'id': self.fresh(),
                 'items': [[k, self.value(depth - 1)] for k in keys]}
        elif kind in ('list', 'tuple'):
            v = {'k': kind, 'id': self.fresh(), 'items': [self.value(depth - 1) for _ in range(n)]}
            if kind == 'tuple' and not v['items']:
                v['id'] = 0      # CPython has a single empty tuple: it has no identity of its own
        else:
            names = r.sample(ATTR_NAMES, min(n, len(ATTR_NAMES)))
            v = {'k': 'obj', 'id': self.fresh(), 'cls': r.choice([0, 1]), 'attrs': [[a, self.value(depth - 1)] for a in names]}
        if r.random() < 0.3:
            self.shared.append(v)
        return v
