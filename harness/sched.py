"""A deterministic scheduler for real threads: a worker blocks at every yield point (Controller.point()) until the
controller grants it one step; a step runs the worker up to its next yield point or to its end."""
import threading


class Controller:
    def __init__(self):
        self.cv = threading.Condition()
        self.state = {}          # tid -> 'new' | 'waiting' | 'running' | 'finished'
        self.granted = None
        self.local = threading.local()
        self.passthrough = False
        self.results = {}
        self.errors = {}

    # ---- worker side ----
    def point(self):
        tid = getattr(self.local, 'tid', None)
        if tid is None or self.passthrough:
            return
        with self.cv:
            self.state[tid] = 'waiting'
            self.cv.notify_all()
            while self.granted != tid:
                self.cv.wait()
            self.granted = None
            self.state[tid] = 'running'

    def _body(self, tid, fn):
        self.local.tid = tid
        self.point()                         # wait for the first grant before doing anything
        try:
            self.results[tid] = fn()
        except BaseException as e:           # noqa: B036
            self.errors[tid] = e
        finally:
            with self.cv:
                self.state[tid] = 'finished'
                self.cv.notify_all()

    # ---- controller side ----
    def start(self, fns):
        self.threads = []
        for tid, fn in enumerate(fns):
            self.state[tid] = 'new'
            t = threading.Thread(target=self._body, args=(tid, fn), daemon=True)
            self.threads.append(t)
            t.start()
        with self.cv:
            for tid in range(len(fns)):
                while self.state[tid] == 'new':
                    self.cv.wait(timeout=5)
        # every worker now waits at its entry point; release each up to its first real yield point
        for tid in range(len(fns)):
            self.grant(tid)

    def grant(self, tid, timeout=5.0):
        """let worker tid run one step; False when it has already finished"""
        with self.cv:
            if self.state.get(tid) == 'finished' or tid not in self.state:
                return False
            while self.state[tid] not in ('waiting', 'finished'):
                if not self.cv.wait(timeout=timeout):
                    raise RuntimeError('worker %d does not reach a yield point' % tid)
            if self.state[tid] == 'finished':
                return False
            self.granted = tid
            self.state[tid] = 'running'
            self.cv.notify_all()
            while self.state[tid] == 'running':
                if not self.cv.wait(timeout=timeout):
                    raise RuntimeError('worker %d does not reach a yield point' % tid)
        return True

    def finish(self, tid, limit=2000):
        n = 0
        while self.grant(tid):
            n += 1
            if n > limit:
                raise RuntimeError('worker %d does not finish' % tid)

    def join(self):
        for t in self.threads:
            t.join(timeout=5)


class SchedDict(dict):
    """a dict whose individual operations are yield points"""

    def __init__(self, ctl):
        dict.__init__(self)
        self._ctl = ctl

    def __contains__(self, k):
        self._ctl.point()
        return dict.__contains__(self, k)

    def __len__(self):
        self._ctl.point()
        return dict.__len__(self)

    def __setitem__(self, k, v):
        self._ctl.point()
        dict.__setitem__(self, k, v)

    def __getitem__(self, k):
        self._ctl.point()
        return dict.__getitem__(self, k)
