"""Type-directed generator of (target, spec) pairs for the interpreter properties."""
from pyval import TargetGen


def kind_of(v):
    if isinstance(v, dict) and 'k' in v:
        return v['k']
    if v is None:
        return 'none'
    if isinstance(v, bool):
        return 'bool'
    if isinstance(v, int):
        return 'int'
    if isinstance(v, str):
        return 'str'
    return 'other'


def step_ir(cur, seg):
    if not isinstance(cur, dict):
        return None
    k = cur.get('k')
    if k == 'dict':
        for kk, v in cur['items']:
            if type(kk) is type(seg) and kk == seg:
                return v
        return None
    if k in ('list', 'tuple'):
        try:
            return cur['items'][int(seg)]
        except Exception:
            return None
    if k == 'obj':
        for a, v in cur['attrs']:
            if a == seg:
                return v
    return None


class SpecGen:
    def __init__(self, rng, forms=None):
        self.r = rng
        self.probe = 0
        self.forms = forms

    def next_probe(self):
        self.probe += 1
        return ['Fn', ['probe', self.probe]]

    def target(self, depth=3):
        tg = TargetGen(self.r)
        t = tg.value(depth)
        while not (isinstance(t, dict) and (t.get('items') or t.get('attrs'))):
            t = tg.value(depth)
        return t

    # --- access specs that (mostly) succeed on the given target; returns (spec, resulting sub-target IR) ---
    def access(self, t, allow_bad=True):
        r = self.r
        k = kind_of(t)
        bad = allow_bad and r.random() < 0.12
        if k == 'dict':
            keys = [kk for kk, _ in t['items'] if isinstance(kk, str) and '.' not in kk and kk not in ('*', '**', '')]
            if keys and not bad:
                key = r.choice(keys)
                sub = step_ir(t, key)
                form = r.choice(['str', 'str', 'T[', 'TP'])
                if form == 'str':
                    # maybe a longer dotted path
                    path, cur = [key], sub
                    while r.random() < 0.4:
                        nk = self._valid_seg(cur)
                        if nk is None:
                            break
                        path.append(nk)
                        cur = step_ir(cur, nk)
                    return ['Str', '.'.join(path)], cur
                if form == 'T[':
                    return ['T', 'T', [['[', ['Str', key]]]], sub
                return ['T', 'T', [['P', ['Str', key]]]], sub
            return ['Str', r.choice(['zz', 'a', 'q'])], None
        if k in ('list', 'tuple'):
            n = len(t['items'])
            if n and not bad:
                i = r.randrange(n)
                form = r.choice(['str', 'T['])
                if form == 'str':
                    return ['Str', str(i)], t['items'][i]
                return ['T', 'T', [['[', ['Lit', i]]]], t['items'][i]
            return ['T', 'T', [['[', ['Lit', 9]]]], None
        if k == 'obj':
            names = [a for a, _ in t['attrs']]
            if names and not bad:
                a = r.choice(names)
                form = r.choice(['str', 'T.'])
                if form == 'str':
                    return ['Str', a], step_ir(t, a)
                return ['T', 'T', [['.', ['Str', a]]]], step_ir(t, a)
            return ['Str', 'zz'], None
        return ['Str', 'a'], None

    def _valid_seg(self, cur):
        k = kind_of(cur)
        if k == 'dict':
            keys = [kk for kk, _ in cur['items'] if isinstance(kk, str) and '.' not in kk and kk not in ('*', '**', '')]
            return self.r.choice(keys) if keys else None
        if k in ('list', 'tuple'):
            return str(self.r.randrange(len(cur['items']))) if cur['items'] else None
        if k == 'obj':
            return self.r.choice([a for a, _ in cur['attrs']]) if cur['attrs'] else None
        return None

    def invoke_kw(self, t):
        """Invoke with keyword parts: constants / specs / star in any order, keyword names repeated across parts (only the LAST
        constants()/specs() call giving a name is evaluated, at its own position), star dicts overriding and being overridden"""
        r = self.r
        a, _ = self.access(t, allow_bad=False)

        def sp():
            return ['Tuple', [self.next_probe(), r.choice([a, ['T', 'T', []], ['Val', r.randint(1, 4)], ['Val', 2],
                                                            ['Fn', ['raise', 'ValueError']] if r.random() < 0.3 else ['Val', 3]])]]
        parts = []
        for _ in range(r.randint(1, 4)):
            tag = r.choice(['S', 'S', 'C', '*'])
            names = r.sample(['a', 'b', 'c'], r.randint(0, 2))
            if tag == 'S':
                parts.append(['S', [sp() for _ in range(r.randint(0, 2))], [[n, sp()] for n in names]])
            elif tag == 'C':
                parts.append(['C', [['Lit', r.randint(10, 13)] for _ in range(r.randint(0, 2))], [[n, ['Lit', 'c' + n]] for n in names]])
            else:
                args = r.choice([[], [['Tuple', [self.next_probe(), ['Val', {'k': 'list', 'id': 0, 'items': [5, 6]}]]]],
                                 [['Tuple', [self.next_probe(), ['Val', {'k': 'tuple', 'id': 0, 'items': []}]]]], [['Val', 3]]])
                kwd = {'k': 'dict', 'od': False, 'id': 0, 'items': [[n, 's' + n] for n in names]}
                kws = r.choice([[], [['', ['Tuple', [self.next_probe(), ['Val', kwd]]]]], [['', ['Tuple', [self.next_probe(), ['Val', kwd]]]]]])
                if not args and not kws:
                    kws = [['', ['Val', kwd]]]
                parts.append(['*', args, kws])
        fspec = ['Fn', ['rec']]
        if r.random() < 0.25:
            fspec = ['Spec', ['Tuple', [self.next_probe(), ['Val', {'fn': ['rec']}]]], []]
        return ['Invoke', fspec, parts]

    def leaf(self, t):
        """a spec applicable to target t that does not descend"""
        r = self.r
        k = kind_of(t)
        c = r.random()
        if c < 0.15:
            return ['T', 'T', []]
        if c < 0.3:
            return ['Val', r.choice([1, 'v', None, {'sent': 'SKIP'}, {'sent': 'STOP'}])]
        if k == 'int':
            return ['Fn', r.choice([['inc'], ['dbl'], ['skip_if_odd'], ['stop_if_neg'], ['even'], ['id']])]
        if k in ('list', 'tuple', 'dict', 'str'):
            return ['Fn', r.choice([['len'], ['id'], ['len']])]
        return ['Fn', r.choice([['id'], ['is_none']])]

    def spec(self, t, depth):
        r = self.r
        k = kind_of(t)
        if depth <= 0:
            return self.leaf(t)
        forms = ['access', 'access', 'dict', 'tuple', 'pipe', 'list', 'coalesce', 'call', 'invoke', 'spec', 'leaf', 'probe', 'ref']
        if self.forms:
            forms = self.forms
        f = r.choice(forms)
        if f == 'access':
            s, sub = self.access(t)
            return s
        if f == 'dict':
            n = r.randint(1, 3)
            es = []
            used = set()
            for _ in range(n):
                key = r.choice(['x', 'y', 'z', 'w'])
                if key in used:
                    continue
                used.add(key)
                ks = ['Str', key]
                if r.random() < 0.12:
                    ks = ['T', 'T', [['[', ['Str', self._valid_seg(t) or 'a']]]] if k == 'dict' else ['Spec', ['Val', key + '2'], []]
                es.append([ks, self.spec(t, depth - 1)])
            return ['Dict', r.random() < 0.2, es]
        if f in ('tuple', 'pipe'):
            steps = []
            cur = t
            for _ in range(r.randint(1, 3)):
                if cur is None:
                    steps.append(self.leaf(None))
                    break
                if r.random() < 0.5:
                    s, sub = self.access(cur)
                    steps.append(s)
                    cur = sub
                else:
                    s = self.spec(cur, depth - 1)
                    steps.append(s)
                    cur = None if s[0] not in ('T',) or s[2] else cur
                if cur is None and r.random() < 0.5:
                    break
            if r.random() < 0.3:
                steps.append(self.next_probe())
            if r.random() < 0.12:
                # a chain nested directly in a chain, ended early by STOP (or with a SKIP step), followed by outer steps:
                # the inner STOP ends the inner chain only
                inner_kind = r.choice(['Tuple', 'Pipe'])
                inner = [inner_kind, steps + [['Val', {'sent': r.choice(['STOP', 'STOP', 'SKIP'])}], self.next_probe()]]
                return ['Tuple' if f == 'tuple' else 'Pipe', [inner, self.next_probe(), ['Fn', ['id']]]]
            return ['Tuple' if f == 'tuple' else 'Pipe', steps]
        if f == 'list':
            if k in ('list', 'tuple') and t['items']:
                return ['List', [self.spec(t['items'][0], depth - 1)]]
            if k == 'dict' and t['items']:
                return ['List', [r.choice([['T', 'T', []], self.next_probe(), ['Fn', ['id']]])]]
            return ['List', [self.leaf(None)]]
        if f == 'coalesce':
            alts = []
            for _ in range(r.randint(1, 3)):
                if r.random() < 0.5:
                    s, _ = self.access(t, allow_bad=True)
                    if r.random() < 0.5:
                        s = ['Tuple', [s, self.next_probe()]]
                    alts.append(s)
                else:
                    alts.append(r.choice([['Str', 'zz'], ['Tuple', [['Str', 'zz'], self.next_probe()]], ['Val', None], ['Val', 0],
                                          ['Tuple', [self.next_probe(), ['Fn', ['raise', 'ValueError']]]]]))
            default = r.choice([None, None, ['Lit', 'dflt'], ['T', 'T', []], ['Val', 3], ['List', [['Lit', 1], ['T', 'T', []]]]])
            factory = None
            if default is None and r.random() < 0.2:
                factory = ['addargs']   # called with no argument (the catalogue's variadic callable)
            skip = r.choice([None, None, None, 0, {'k': 'tuple', 'id': 0, 'items': [None, 0, '']}, {'skipnone': 1}, '', {'fn': ['is_none']}])
            skip_exc = r.choice([None, None, None, ['ValueError', 'GlomError'], ['KeyError']])
            return ['Coalesce', alts, default, factory, skip, skip_exc]
        if f == 'call':
            fn = r.choice([['id'], ['len'], ['inc'], ['probe', None], ['addargs']])
            if fn[0] == 'probe':
                fn = self.next_probe()[1]
            if fn[0] == 'addargs':
                args = [r.choice([['Lit', 1], ['Lit', 2], ['Tuple', []], ['T', 'T', []]]) for _ in range(r.randint(0, 3))]
                args = [a for a in args if a[0] != 'Tuple']
                return ['Call', ['Fn', fn], args]
            a, _ = self.access(t, allow_bad=False)
            if r.random() < 0.35:
                # the function is itself a spec, and so are the arguments: func, then args, left to right — each sub-spec
                # announces itself through a probe, and either may fail with its own exception class
                fspec = ['Spec', ['Tuple', [self.next_probe(), r.choice([['Val', {'fn': fn}], ['Val', {'fn': fn}], ['Str', 'zz']])]], []]
                args = []
                for _ in range(r.randint(1, 2)):
                    args.append(['Spec', ['Tuple', [self.next_probe(), r.choice([a, a, ['T', 'T', []], ['Fn', ['raise', 'ValueError']]])]], []])
                if fn[0] != 'addargs':
                    args = args[:1]
                return ['Call', fspec, args]
            arg = r.choice([['T', 'T', []], a if a[0] == 'T' else ['Spec', a, []], ['Lit', 5], ['Str', 'lit'],
                            ['List', [['T', 'T', []], ['Lit', 1]]]])
            return ['Call', ['Fn', fn], [arg]]
        if f == 'invoke' and r.random() < 0.45:
            return self.invoke_kw(t)
        if f == 'call' and r.random() < 0.2:
            # keyword arguments: evaluated after the positional ones, in the order written
            a, _ = self.access(t, allow_bad=False)
            mk = lambda: ['Spec', ['Tuple', [self.next_probe(), r.choice([a, ['T', 'T', []], ['Val', 1], ['Fn', ['raise', 'ValueError']]])]], []]  # noqa: E731
            args = [mk() for _ in range(r.randint(0, 2))]
            kw = [[n, r.choice([mk(), ['Lit', 7], ['List', [['T', 'T', []], ['Lit', 1]]]])] for n in r.sample(['a', 'b', 'c'], r.randint(1, 2))]
            return ['Call', ['Fn', ['rec']], args, kw]
        if f == 'invoke':
            fn = r.choice([['id'], ['len'], ['inc']])
            a, _ = self.access(t, allow_bad=False)
            if r.random() < 0.35:
                # the function is given by a spec and so are the arguments: function first, then the parts left to right; every
                # sub-spec announces itself, and either may fail with its own class
                fspec = ['Spec', ['Tuple', [self.next_probe(), r.choice([['Val', {'fn': fn}], ['Val', {'fn': fn}], ['Str', 'zz']])]], []]
                part = [True, [['Tuple', [self.next_probe(), r.choice([a, a, ['T', 'T', []], ['Fn', ['raise', 'ValueError']]])]]]]
                return ['Invoke', fspec, [part]]
            part = r.choice([[True, [a]], [True, [['T', 'T', []]]], [False, [['Lit', 3]]], [False, [['Str', 'abc']]]])
            return ['Invoke', ['Fn', fn], [part]]
        if f == 'spec':
            return ['Spec', self.spec(t, depth - 1), []]
        if f == 'probe':
            return ['Tuple', [self.next_probe(), self.spec(t, depth - 1)]]
        if f == 'ref':
            # Ref('r', <spec using Ref('r') on a sub-target>) is recursion; keep it shallow: define and use once
            inner = self.spec(t, depth - 1)
            return ['Ref', 'r', ['Tuple', [inner, ['Fn', ['id']]]]]
        return self.leaf(t)
