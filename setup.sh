#!/bin/sh
# build the Coq development from files on disk (offline); regenerate tables from /repo first
cd "$(dirname "$0")" || exit 2
mkdir -p _work evidence replays
python3 harness/translate.py || echo "translator reported problems (checks will report the broken tie)"
cd coq && coq_makefile -f _CoqProject -o Makefile >/dev/null && timeout 3600 make -j16 -k 2>&1 | tail -5
exit 0
