#!/venv/bin/python
"""For each property: the lines inside the code ranges its anchors name (properties.jsonl 'where' fields) that the property's OWN
generated inputs never execute.  A review aid for generator holes (see tools/gen_coverage.py)."""
import importlib, json, os, re, signal, sys
HERE = os.path.join(os.path.dirname(os.path.dirname(os.path.abspath(__file__))), 'harness')
sys.path.insert(0, HERE)
os.environ.setdefault('PYTHONHASHSEED', '0')
import lib  # noqa: E402
sys.path.insert(0, lib.REPO)
import coverage  # noqa: E402


def ranges_of(prop):
    out = {}
    def walk(o):
        if isinstance(o, dict):
            w = o.get('where')
            if isinstance(w, str):
                cur = None
                for part in re.split(r'[;,]\s*', w):
                    m = re.match(r'\s*(glom/\w+\.py):(\d+)(?:-(\d+))?', part)
                    if m:
                        cur = m.group(1)
                        out.setdefault(cur, []).append((int(m.group(2)), int(m.group(3) or m.group(2))))
                    else:
                        m = re.match(r'\s*(\d+)(?:-(\d+))?\s*$', part)
                        if m and cur:
                            out[cur].append((int(m.group(1)), int(m.group(2) or m.group(1))))
            for v in o.values():
                walk(v)
        elif isinstance(o, list):
            for v in o:
                walk(v)
    walk(prop.get('anchors', {}))
    return out


class T(Exception):
    pass


def alarm(*a):
    raise T()


def main():
    props = [json.loads(l) for l in open(os.path.join(os.path.dirname(HERE), 'properties.jsonl'))]
    want = sys.argv[1:] or [p['id'] for p in props]
    signal.signal(signal.SIGALRM, alarm)
    for p in props:
        if p['id'] not in want:
            continue
        rs = ranges_of(p)
        cov = coverage.Coverage(branch=False, include=[lib.REPO + '/glom/*'], omit=[lib.REPO + '/glom/test/*'], data_file=None)
        cov.start()
        mod = importlib.import_module('props.' + p['id'].lower())
        rng = lib.Rng(20260101)
        for c in list(mod.corpus()) + list(mod.generate(rng, 'quick')):
            signal.setitimer(signal.ITIMER_REAL, 5.0)
            try:
                mod.run_impl(c)
            except BaseException:  # noqa: B036
                pass
            finally:
                signal.setitimer(signal.ITIMER_REAL, 0)
        cov.stop()
        print('== %s  anchors: %s' % (p['id'], {k: v for k, v in rs.items()}), flush=True)
        for f, spans in rs.items():
            path = os.path.join(lib.REPO, f)
            try:
                an = cov._analyze(path)
            except Exception as e:
                print('   %s: not measured (%s)' % (f, e))
                continue
            src = open(path).read().split('\n')
            for ln in sorted(an.missing):
                if any(a - 3 <= ln <= b + 12 for a, b in spans):      # the fixes moved lines by a few
                    print('   %s:%d  %s' % (f, ln, src[ln - 1].rstrip()[:140]))


if __name__ == '__main__':
    main()
