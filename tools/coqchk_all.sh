#!/bin/sh
# independent re-check of every compiled property file (and all it depends on) with coqchk; prints the axiom summary per file.
# not part of any registered command: C05 alone takes about an hour (the checker re-evaluates the bounded sweep).
cd "$(dirname "$0")/../coq" || exit 1
for i in 01 02 03 04 06 07 08 09 10 11 12 13 14 15 16 17 18 19 20 05; do
  echo "== C$i"
  timeout 7200 coqchk -silent -o -Q theories Glom Glom.Properties.C$i 2>&1 | tail -11
done
