#!/venv/bin/python
"""Which lines / branches of glom does a check's generated input actually reach?  (a review aid, not a check)

usage: gen_coverage.py Cxx [tier] [--seed N]   -> prints, per glom source file, the lines never executed while the
implementation side of the check ran its corpus + generated cases, restricted to the function ranges given with --funcs.
The point is to find holes in a GENERATOR by reading the code it never reaches (DESIGN 12.7: every seeded miss so far was one)."""
import argparse
import importlib
import os
import signal
import sys

HERE = os.path.join(os.path.dirname(os.path.dirname(os.path.abspath(__file__))), 'harness')
sys.path.insert(0, HERE)
os.environ.setdefault('PYTHONHASHSEED', '0')
import lib  # noqa: E402
sys.path.insert(0, lib.REPO)


def main():
    ap = argparse.ArgumentParser()
    ap.add_argument('props', help='comma-separated property ids, or all')
    ap.add_argument('tier', nargs='?', default='quick')
    ap.add_argument('--seed', type=int, default=20260101)
    ap.add_argument('--out', default=None)
    args = ap.parse_args()
    import coverage
    cov = coverage.Coverage(branch=True, include=[lib.REPO + '/glom/*'], omit=[lib.REPO + '/glom/test/*'], data_file=None)
    cov.start()
    props = ['C%02d' % i for i in range(1, 21)] if args.props == 'all' else args.props.split(',')

    class T(Exception):
        pass

    def alarm(*a):
        raise T()
    signal.signal(signal.SIGALRM, alarm)
    for prop in props:
        mod = importlib.import_module('props.' + prop.lower())
        rng = lib.Rng(args.seed)
        cases = list(mod.corpus()) + list(mod.generate(rng, args.tier))
        n = 0
        for c in cases:
            signal.setitimer(signal.ITIMER_REAL, 5.0)
            try:
                mod.run_impl(c)
                n += 1
            except BaseException:  # noqa: B036
                pass
            finally:
                signal.setitimer(signal.ITIMER_REAL, 0)
        print('%s: %d / %d cases run' % (prop, n, len(cases)), flush=True)
    cov.stop()
    for f in sorted(cov.get_data().measured_files()):
        an = cov._analyze(f)
        missing = sorted(an.missing)
        arcs = an.missing_branch_arcs() if hasattr(an, 'missing_branch_arcs') else {}
        print('== %s: %d statements, %d missing' % (os.path.relpath(f, lib.REPO), len(an.statements), len(missing)))
        src = open(f).read().split('\n')
        for ln in missing:
            print('   %5d  %s' % (ln, src[ln - 1].rstrip()[:150]))
        if arcs:
            print('   partial branches (line -> never taken to): %s' % ', '.join('%d->%s' % (a, sorted(b)) for a, b in sorted(arcs.items()) if a not in an.missing))


if __name__ == '__main__':
    main()
