#!/usr/bin/env python3
"""regenerate MANIFEST.json from the table below (claimed checks) — properties not listed go to not_applicable"""
import json
props = [json.loads(l) for l in open('/verif/properties.jsonl')]
TB = "Coq 8.16.1 kernel (coqc, vm_compute; no native_compute, no axioms); harness/translate.py; correspondence harness (differential testing); CPython semantics of builtins restated in the model"
CLAIMED = {
 "C01": ("Coq theorems over all targets and segment lists: the flat-tuple loop of _t_eval refines the left fold of the per-type access (path_refines_access, text_path_refines_access), the result is the stored object (path_returns_identity), the first inaccessible segment k yields PathAccessError(.., k) whatever follows (path_first_failure, path_error_is_first_failure), class lattice from the regenerated class headers. Tie: regenerated opcode / index-expression / exception tables + vm_compute correspondence of model and Spec against /repo.",
         "DESIGN.md section 7 C01", TB + "; getattr on builtin attributes and exotic int() strings outside the model",
         "Coq proof (loop-invariant refinement) + regenerated-table obligations + model/spec vs implementation correspondence"),
 "C02": ("Coq theorems over all operation sequences and targets: recording through the overload table and evaluating with _t_eval's loop equals replaying the denoted Python operations left to right with nested T arguments evaluated on the original target (texpr_denotes), no operation dropped (texpr_no_drop), first failing attribute/item/arithmetic operation k surfaces as PathAccessError(.., k) (texpr_failure_position); overload_dispatch_total/sound are proved about the tables regenerated from TType and _t_eval on every run.",
         "DESIGN.md section 7 C02", TB + "; floats, str %, set operators outside the model; nested T arguments by open recursion",
         "Coq proof (refinement to a replay semantics) + regenerated-table obligations + three-way correspondence (model, spec, glom) + direct Python evaluation"),
 "C18": ("Coq theorems, generic in the representation of roots/opcodes/arguments, about the slice/zip/len expressions regenerated from Path's methods on every run: len, values, items, int indexing (IndexError exactly outside [-n, n)), slicing = tuple slicing of the steps for ALL triples, ==, startswith, Path(p, q) concatenation; __setstate__(__getstate__ x) = x; glom(t, Path(p, q)) = glom(glom(t, p), q). repr: an executable token-level model of _format_t/_format_path/_format_slice/format_invocation and of eval's reading (Path.__init__ flattening) is compared with the real repr tokens, the real eval and pickle on every case; the codec round-trip theorem about that model is staged (DESIGN.md section 12).",
         "DESIGN.md section 7 C18", TB + "; Python's tokenizer/parser, repr of atoms and pickle outside the model",
         "Coq proof (sequence laws over regenerated slice expressions) + executable repr/eval model in correspondence with real repr/eval/pickle"),
 "C14": ("Coq theorems over ALL object graphs (cyclic, shared, dangling): the id()-guarded work list of ** terminates with the fuel |h|+2*edges+2 the model supplies (a real termination proof by a decreasing measure, not a fuel assumption); its result is the value itself followed by the children of every container of the result, each expanded exactly once (NoDup) in order of first occurrence, hence breadth first; it contains exactly the reachable values (sound + complete); * is the children in natural order; entries after a wildcard are evaluated independently with failing ones dropped and order kept; every wildcard adds one list level. Tie: vm_compute correspondence of the graph model against glom on random DAG-shaped and cyclic heaps in text and Path/T spelling, each run under an alarm.",
         "DESIGN.md section 7 C14", TB + "; sets and containers whose element access raises are not generated; Assign/Delete broadcast is covered under C11/C12",
         "Coq proof (termination measure + work-list invariant) + graph-model vs implementation correspondence"),
 "C13": ("Coq theorems over all class universes (any issubclass / isinstance / MRO), all trees and all registration sequences: _register_fuzzy_type, modelled as the exact snapshot fold with pops and in-place updates, keeps the subtype tree well formed (insert_wf); the repaired _get_closest_type returns a matching registered type that ranks (real base before duck match, earlier MRO position first) at least as well as every most-specific matching registered type, and fails only if none matches (lookup_nearest); when only real bases match it is the first registered class of the MRO (lookup_first_registered_in_mro), hence independent of registration order, tree shape and sibling order (registration_order_irrelevant); the memo never changes an answer and register() empties it (lookup_history_irrelevant, register_takes_effect_immediately). Hypotheses about the universe are checked by a boolean checker on every generated case. Tie: histories of register/lookup events replayed on model and implementation from the observed initial registry; default Glommer vs module registry compared directly.",
         "DESIGN.md section 7 C13", TB + "; register_op's hash-ordered tree construction is observed, not modelled; registries are separate values in the model, so isolation is by construction",
         "Coq proof (rose-tree induction, fold invariant) + event-history correspondence against TargetRegistry"),
}
REASON_WIP = "check not built yet (work in progress; see DESIGN.md section 7 for the plan)"
NA = {}
m = {"version": 1, "setup_cmd": "./setup.sh",
     "hooks": {"guard": "GLOM_VERIF", "enable": "no source hooks are needed: checks import /repo's working tree directly (PYTHONPATH=/repo)",
               "baseline_off_cmd": "cd /repo && /venv/bin/python -m pytest -ra -q -p no:cacheprovider --timeout=900 --continue-on-collection-errors",
               "source_commits": [], "add_only": True},
     "engines": [{"name": "coq-proof+correspondence", "path": "/verif/check", "serves_properties": sorted(CLAIMED),
                  "kind_free_text": "Coq 8.16 model + theorems (coq/theories/Properties/Cxx.v), AST table translator, vm_compute correspondence against /repo"}],
     "checks": [], "notes": "see DESIGN.md; known_findings.json lists fixed: entries for the fix: commits in /repo", "not_applicable": []}
for p in props:
    pid = p['id']
    if pid in CLAIMED:
        t, ref, note, tech = CLAIMED[pid]
        m['checks'].append({"property_id": pid, "quick_cmd": "./check %s --tier quick" % pid, "thorough_cmd": "./check %s --tier thorough" % pid,
                            "evidence_file": "/verif/evidence/%s.json" % pid, "replay_cmd_template": "./check %s --replay {path}" % pid,
                            "engine": "coq-proof+correspondence", "level_claimed": {"category": "proof", "text": t, "design_ref": ref},
                            "level_note": note, "technique": tech})
    else:
        m['not_applicable'].append({"property_id": pid, "reason": NA.get(pid, REASON_WIP)})
json.dump(m, open('/verif/MANIFEST.json', 'w'), indent=1)
print('claimed:', sorted(CLAIMED))
