#!/bin/sh
# run every check once (tier from $1, default quick); prints one summary line per property
tier=${1:-quick}
for p in C01 C02 C03 C04 C05 C06 C07 C08 C09 C10 C11 C12 C13 C14 C15 C16 C17 C18 C19 C20; do
  out=$(./check $p --tier $tier 2>&1); rc=$?
  echo "$p rc=$rc $(echo "$out" | grep "^$p tier" | tail -1) $(echo "$out" | grep -c '^VIOLATION') violations"
done
