#!/usr/bin/env python3
"""Confirm a seeded change made by a sub-agent in /tmp/wt_<PID>, store it under /verif/seeded/<name>/, run checks against it.
usage: seed_eval.py PID NAME [CHECKS...]   (CHECKS default: PID)"""
import json, os, subprocess, sys, shutil, re, time

pid, name = sys.argv[1], sys.argv[2]
checks = sys.argv[3:] or [pid]
wt = '/tmp/wt_%s' % pid
out = '/verif/seeded/%s' % name
os.makedirs(out, exist_ok=True)
ENV = dict(os.environ, PYTHONDONTWRITEBYTECODE='1', PYTHONHASHSEED='0')


def sh(cmd, cwd=None, timeout=1800):
    p = subprocess.run(cmd, shell=True, cwd=cwd, capture_output=True, text=True, env=ENV, timeout=timeout)
    return p.returncode, p.stdout + p.stderr


rc, diff = sh('git diff', wt)
assert diff.strip(), 'no diff in %s' % wt
open(out + '/patch.diff', 'w').write(diff)
for f in ('DEMO.py', 'NOTE.md'):
    if os.path.exists(wt + '/' + f):
        shutil.copy(wt + '/' + f, out + '/' + f)
meta = {'property': pid, 'source': 'fresh sub-agent given only the property text and a scratch worktree', 'date': time.strftime('%Y-%m-%d')}
# 1. tests with the change
rc, t = sh('/venv/bin/python -m pytest -q -p no:cacheprovider glom/test 2>&1 | tail -3', wt)
m = re.search(r'(\d+) passed', t)
f = re.search(r'(\d+) failed', t)
meta['tests_with_change'] = {'passed': int(m.group(1)) if m else None, 'failed': int(f.group(1)) if f else 0,
                             'only_test_main_fails': 'test_cli.py::test_main' in t or not f}
rc, t = sh('/venv/bin/python -m pytest -q -p no:cacheprovider glom/test 2>&1 | grep FAILED', wt)
meta['tests_with_change']['failed_ids'] = [l.split()[1] for l in t.strip().splitlines() if l.startswith('FAILED')]
# 2. demonstration with and without the change
rc1, d1 = sh('/venv/bin/python DEMO.py', wt, 300)
sh('git apply -R %s/patch.diff' % out, wt)          # (git stash is shared between worktrees: not used)
rc0, d0 = sh('/venv/bin/python DEMO.py', wt, 300)
sh('git apply %s/patch.diff' % out, wt)
meta['demo_exit_with_change'] = rc1
meta['demo_exit_original'] = rc0
meta['demo_output_with_change'] = d1[-1500:]
meta['confirmed'] = (rc1 == 1 and rc0 == 0 and meta['tests_with_change']['failed_ids'] in ([], ['glom/test/test_cli.py::test_main']))
# 3. the checks against it
sh('git checkout -- .', '/repo')
rc, a = sh('git apply %s/patch.diff' % out, '/repo')
assert rc == 0, a
verdicts = {}
try:
    for c in checks:
        t0 = time.time()
        rc, o = sh('./check %s' % c, '/verif', 3000)
        lines = [l for l in o.splitlines() if l.startswith('VIOLATION') or l.startswith('KNOWN-FINDING') or l.startswith(c + ' tier')]
        first = next((l for l in lines if l.startswith('VIOLATION')), None)
        replay = None
        if first:
            rp = first.split('replay=')[1].split()[0]
            try:
                r = json.load(open(rp))
                replay = {k: r.get(k) for k in ('what', 'case', 'broken') if k in r}
                replay = json.loads(json.dumps(replay)[:1200] + '"') if False else replay
            except Exception:
                pass
        verdicts[c] = {'exit': rc, 'caught': rc == 1 and first is not None, 'no_failing_input_found': bool(first and 'no-failing-input-found' in first),
                       'summary': lines[-4:], 'first_replay': json.dumps(replay)[:900] if replay else None, 'seconds': round(time.time() - t0, 1)}
finally:
    sh('git checkout -- .', '/repo')
rc, st = sh('git status --porcelain', '/repo')
assert not st.strip(), st
meta['checks'] = verdicts
json.dump(meta, open(out + '/meta.json', 'w'), indent=1)
print(name, 'confirmed' if meta['confirmed'] else 'NOT CONFIRMED', {c: ('CAUGHT' + (' (no input)' if v['no_failing_input_found'] else '')) if v['caught'] else 'missed' for c, v in verdicts.items()})
if not meta['confirmed']:
    print(json.dumps({k: meta[k] for k in ('tests_with_change', 'demo_exit_with_change', 'demo_exit_original')}))
