#!/usr/bin/env python3
"""Confirm and evaluate a seed delivered as a directory (patch.diff, DEMO.py, NOTE.md) inside /tmp/wt_<PID>/<sub>.
usage: seed_eval2.py PID SUB NAME [CHECKS...]"""
import json, os, subprocess, sys, shutil, re, time

pid, sub, name = sys.argv[1], sys.argv[2], sys.argv[3]
checks = sys.argv[4:] or [pid]
wt = '/tmp/wt_%s' % pid
src = '%s/%s' % (wt, sub)
out = '/verif/seeded/%s' % name
os.makedirs(out, exist_ok=True)
ENV = dict(os.environ, PYTHONDONTWRITEBYTECODE='1', PYTHONHASHSEED='0')


def sh(cmd, cwd=None, timeout=1800):
    p = subprocess.run(cmd, shell=True, cwd=cwd, capture_output=True, text=True, env=ENV, timeout=timeout)
    return p.returncode, p.stdout + p.stderr


for f in ('patch.diff', 'DEMO.py', 'NOTE.md'):
    shutil.copy(src + '/' + f, out + '/' + f)
meta = {'property': pid, 'source': 'fresh sub-agent given only the property text and a scratch worktree (round given by the name suffix)',
        'date': time.strftime('%Y-%m-%d')}
sh('git checkout -- glom', wt)
rc0, d0 = sh('/venv/bin/python %s/DEMO.py' % sub, wt, 300)
rc, a = sh('git apply %s/patch.diff' % sub, wt)
assert rc == 0, a
rc, t = sh('/venv/bin/python -m pytest -q -p no:cacheprovider glom/test 2>&1 | tail -3', wt)
m = re.search(r'(\d+) passed', t)
f = re.search(r'(\d+) failed', t)
rc, t2 = sh('/venv/bin/python -m pytest -q -p no:cacheprovider glom/test 2>&1 | grep FAILED', wt)
failed = [l.split()[1] for l in t2.strip().splitlines() if l.startswith('FAILED')]
meta['tests_with_change'] = {'passed': int(m.group(1)) if m else None, 'failed': int(f.group(1)) if f else 0, 'failed_ids': failed}
rc1, d1 = sh('/venv/bin/python %s/DEMO.py' % sub, wt, 300)
sh('git checkout -- glom', wt)
meta['demo_exit_with_change'] = rc1
meta['demo_exit_original'] = rc0
meta['demo_output_with_change'] = d1[-1500:]
meta['confirmed'] = (rc1 == 1 and rc0 == 0 and failed in ([], ['glom/test/test_cli.py::test_main']))
sh('git checkout -- .', '/repo')
rc, a = sh('git apply %s/patch.diff' % out, '/repo')
if rc != 0:
    rc, a = sh('git apply -3 %s/patch.diff' % out, '/repo')
assert rc == 0, a
verdicts = {}
try:
    for c in checks:
        t0 = time.time()
        rc, o = sh('./check %s' % c, '/verif', 3000)
        lines = [l for l in o.splitlines() if l.startswith('VIOLATION') or l.startswith('KNOWN-FINDING') or l.startswith(c + ' tier')]
        first = next((l for l in lines if l.startswith('VIOLATION')), None)
        replay = None
        if first:
            rp = first.split('replay=')[1].split()[0]
            try:
                r = json.load(open(rp))
                replay = {k: r.get(k) for k in ('what', 'case', 'broken') if k in r}
            except Exception:
                pass
        verdicts[c] = {'exit': rc, 'caught': rc == 1 and first is not None, 'no_failing_input_found': bool(first and 'no-failing-input-found' in first),
                       'summary': [l[:300] for l in lines[-4:]], 'first_replay': json.dumps(replay)[:900] if replay else None, 'seconds': round(time.time() - t0, 1)}
finally:
    sh('git checkout -- .', '/repo')
    sh('git reset -q', '/repo')
rc, st = sh('git status --porcelain', '/repo')
assert not st.strip(), st
meta['checks'] = verdicts
json.dump(meta, open(out + '/meta.json', 'w'), indent=1)
print(name, 'confirmed' if meta['confirmed'] else 'NOT CONFIRMED', {c: ('CAUGHT' + (' (no input)' if v['no_failing_input_found'] else '')) if v['caught'] else 'missed' for c, v in verdicts.items()})
if not meta['confirmed']:
    print(json.dumps({k: meta[k] for k in ('tests_with_change', 'demo_exit_with_change', 'demo_exit_original')}))
