#!/usr/bin/env python3
"""Re-run checks against a stored seed (/verif/seeded/<NAME>/patch.diff); records the new verdicts in meta.json.
usage: seed_recheck.py NAME [--note TEXT] [CHECKS...]"""
import json, os, subprocess, sys, time
args = sys.argv[1:]
name = args.pop(0)
note = None
if args and args[0] == '--note':
    args.pop(0); note = args.pop(0)
d = '/verif/seeded/%s' % name
meta = json.load(open(d + '/meta.json'))
checks = args or list(meta['checks'])
ENV = dict(os.environ, PYTHONDONTWRITEBYTECODE='1', PYTHONHASHSEED='0')
def sh(cmd, cwd=None, timeout=3000):
    p = subprocess.run(cmd, shell=True, cwd=cwd, capture_output=True, text=True, env=ENV, timeout=timeout)
    return p.returncode, p.stdout + p.stderr
sh('git checkout -- .', '/repo')
rc, a = sh('git apply --check %s/patch.diff' % d, '/repo')
if rc != 0:
    # the hunks were touched by a later repair of /repo: the stored verdicts (taken on the tree the seed was written for) stand
    print(name, 'patch no longer applies to the current /repo')
    sys.exit(0)
rc, a = sh('git apply %s/patch.diff' % d, '/repo')
assert rc == 0, a
res = {}
try:
    for c in checks:
        t0 = time.time()
        rc, o = sh('./check %s' % c, '/verif')
        lines = [l for l in o.splitlines() if l.startswith('VIOLATION') or l.startswith(c + ' tier')]
        first = next((l for l in lines if l.startswith('VIOLATION')), None)
        replay = None
        if first:
            try:
                r = json.load(open(first.split('replay=')[1].split()[0]))
                replay = json.dumps({k: r.get(k) for k in ('what', 'case', 'broken') if k in r})[:900]
            except Exception:
                pass
        res[c] = {'exit': rc, 'caught': rc == 1 and first is not None, 'no_failing_input_found': bool(first and 'no-failing-input-found' in first),
                  'summary': [l[:300] for l in lines[-4:]], 'first_replay': replay, 'seconds': round(time.time() - t0, 1)}
finally:
    sh('git checkout -- .', '/repo'); sh('git reset -q', '/repo')
rc, st = sh('git status --porcelain', '/repo')
assert not st.strip(), st
before = {c: v.get('caught') for c, v in meta['checks'].items()}
if 'first_run' not in meta:
    meta['first_run'] = {c: ('caught' if v.get('caught') else 'missed') for c, v in meta['checks'].items()}
meta['checks'].update(res)
if note:
    meta['history'] = note
json.dump(meta, open(d + '/meta.json', 'w'), indent=1)
print(name, {c: 'CAUGHT' if v['caught'] else 'missed' for c, v in res.items()})
